(* BudgetCounts.v -- the budget enforcer counts exactly (C07):
   - the report of an accepted stream equals independent folds over the raw event list;
   - an accepted stream is within every limit;
   - a breach names a counter that has just passed its limit by exactly one. *)
From SS Require Import Model.Budget.
From Coq Require Import Lia ZifyBool ZifyN.
Local Open Scope N_scope.

(* the enforcer fed with a list of events, stopping at the first breach (AllContent policy is
   [e_per_document = false]) *)
Fixpoint run (e : enforcer) (evs : list raw_ev) : enforcer * option breach :=
  match evs with
  | [] => (e, None)
  | ev :: r => match observe e ev with
               | (e', Some b) => (e', Some b)
               | (e', None) => run e' r
               end
  end.

(* ---- independent counters: plain folds over the event list ---- *)
Definition is_node (ev : raw_ev) : bool :=
  match ev with RScalar _ _ _ _ | RSeqStart _ _ | RMapStart _ _ => true | _ => false end.
Definition is_alias (ev : raw_ev) : bool := match ev with RAlias _ => true | _ => false end.
Definition is_docstart (ev : raw_ev) : bool := match ev with RDocStart _ => true | _ => false end.
Definition scalar_len (ev : raw_ev) : N :=
  match ev with RScalar v _ _ _ => utf8_str_len v | _ => 0 end.
Definition anchor_of (ev : raw_ev) : N :=
  match ev with RScalar _ _ a _ | RSeqStart a _ | RMapStart a _ => a | _ => 0 end.

Fixpoint count (p : raw_ev -> bool) (evs : list raw_ev) : N :=
  match evs with [] => 0 | ev :: r => (if p ev then 1 else 0) + count p r end.
Fixpoint sum_bytes (evs : list raw_ev) : N :=
  match evs with [] => 0 | ev :: r => scalar_len ev + sum_bytes r end.
(* distinct non-zero anchor ids, given the ids already seen *)
Fixpoint distinct_anchors (seen : list N) (evs : list raw_ev) : N :=
  match evs with
  | [] => len_N seen
  | ev :: r =>
    let a := anchor_of ev in
    if negb (a =? 0) && negb (mem_N a seen) then distinct_anchors (a :: seen) r
    else distinct_anchors seen r
  end.

Definition all_content (e : enforcer) : Prop := e_per_document e = false.

(* ---- one step: what observe does to each counter ---- *)
Ltac destr_step :=
  repeat match goal with
         | |- context [if ?c then _ else _] => destruct c eqn:?
         | |- context [match ?x with _ => _ end] =>
             match type of x with
             | list _ => destruct x eqn:?
             | cstate => destruct x eqn:?
             | bool => destruct x eqn:?
             | option _ => destruct x eqn:?
             | (_ * _)%type => destruct x eqn:?
             end
         end.

Record step_facts (e e' : enforcer) (ev : raw_ev) : Prop := {
  sf_budget : e_budget e' = e_budget e;
  sf_policy : e_per_document e' = e_per_document e;
  sf_events : r_events (e_report e') = r_events (e_report e) + 1;
  sf_nodes : r_nodes (e_report e') = r_nodes (e_report e) + (if is_node ev then 1 else 0);
  sf_aliases : r_aliases (e_report e') = r_aliases (e_report e) + (if is_alias ev then 1 else 0);
  sf_docs : e_per_document e = false ->
            r_documents (e_report e') = r_documents (e_report e) + (if is_docstart ev then 1 else 0);
  sf_bytes : e_per_document e = false ->
             r_total_scalar_bytes (e_report e') = sat_add (r_total_scalar_bytes (e_report e)) (scalar_len ev)
             \/ (scalar_len ev = 0 /\ r_total_scalar_bytes (e_report e') = r_total_scalar_bytes (e_report e));
  sf_defined : e_per_document e = false ->
               e_defined e' = (let a := anchor_of ev in
                               if negb (a =? 0) && negb (mem_N a (e_defined e)) then a :: e_defined e
                               else e_defined e);
  sf_depth_lim : r_max_depth (e_report e') <= N.max (r_max_depth (e_report e)) (max_depth (e_budget e));
  sf_depth_mono : r_max_depth (e_report e) <= r_max_depth (e_report e');
  sf_merge_lim : r_merge_keys (e_report e') <= N.max (r_merge_keys (e_report e)) (max_merge_keys (e_budget e));
  sf_merge_mono : r_merge_keys (e_report e) <= r_merge_keys (e_report e');
  sf_anchor_lim : len_N (e_defined e') <= N.max (len_N (e_defined e)) (max_anchors (e_budget e));
  sf_bytes_lim : r_total_scalar_bytes (e_report e') <= N.max (r_total_scalar_bytes (e_report e)) (max_total_scalar_bytes (e_budget e));
  sf_docs_lim : r_documents (e_report e') <= N.max (r_documents (e_report e)) (max_documents (e_budget e));
  sf_limits : r_events (e_report e') <= max_events (e_budget e)
              /\ r_nodes (e_report e') <= max_nodes (e_budget e) + (if is_node ev then 0 else r_nodes (e_report e'))
              /\ r_aliases (e_report e') <= max_aliases (e_budget e) + (if is_alias ev then 0 else r_aliases (e_report e'))
}.

Lemma bump_nodes_ok e e1 : bump_nodes e = (e1, None) ->
  e1 = set_report e (upd_nodes (e_report e) (r_nodes (e_report e) + 1))
  /\ r_nodes (e_report e) + 1 <= max_nodes (e_budget e).
Proof.
  unfold bump_nodes. cbn [r_nodes upd_nodes].
  destruct (N.ltb_spec (max_nodes (e_budget e)) (r_nodes (e_report e) + 1)) as [Hlt|Hle]; intros Hx; inversion Hx.
  split; [reflexivity|lia].
Qed.

Lemma enter_depth_ok e e1 : enter_depth e = (e1, None) ->
  e_budget e1 = e_budget e /\ e_per_document e1 = e_per_document e /\ e_defined e1 = e_defined e
  /\ e_containers e1 = e_containers e
  /\ r_events (e_report e1) = r_events (e_report e) /\ r_nodes (e_report e1) = r_nodes (e_report e)
  /\ r_aliases (e_report e1) = r_aliases (e_report e) /\ r_documents (e_report e1) = r_documents (e_report e)
  /\ r_total_scalar_bytes (e_report e1) = r_total_scalar_bytes (e_report e)
  /\ r_merge_keys (e_report e1) = r_merge_keys (e_report e)
  /\ r_max_depth (e_report e1) <= max_depth (e_budget e)
  /\ e_depth e1 = sat_add (e_depth e) 1
  /\ r_max_depth (e_report e1) = N.max (r_max_depth (e_report e)) (sat_add (e_depth e) 1).
Proof.
  unfold enter_depth. destruct e as [b r d df cs pd]. destruct r as [br evn al an dn nn md tb mk]. cbn.
  destruct (N.ltb_spec md (sat_add d 1)) as [Hlt|Hle]; cbn;
    match goal with |- context [if ?c then _ else _] => destruct c eqn:E end; intros Hx; inversion Hx; subst; cbn;
    repeat split; try reflexivity; try lia.
Qed.

Lemma record_anchor_ok e a e1 : record_anchor e a = (e1, None) ->
  e_budget e1 = e_budget e /\ e_per_document e1 = e_per_document e /\ e_depth e1 = e_depth e
  /\ e_containers e1 = e_containers e
  /\ e_defined e1 = (if negb (a =? 0) && negb (mem_N a (e_defined e)) then a :: e_defined e else e_defined e)
  /\ len_N (e_defined e1) <= max_anchors (e_budget e) + (if negb (a =? 0) && negb (mem_N a (e_defined e)) then 0 else len_N (e_defined e1))
  /\ r_anchors (e_report e1) = len_N (e_defined e1)
  /\ r_events (e_report e1) = r_events (e_report e) /\ r_nodes (e_report e1) = r_nodes (e_report e)
  /\ r_aliases (e_report e1) = r_aliases (e_report e) /\ r_documents (e_report e1) = r_documents (e_report e)
  /\ r_total_scalar_bytes (e_report e1) = r_total_scalar_bytes (e_report e)
  /\ r_merge_keys (e_report e1) = r_merge_keys (e_report e)
  /\ r_max_depth (e_report e1) = r_max_depth (e_report e).
Proof.
  unfold record_anchor. destruct e as [b r d df cs pd]. destruct r as [br evn al an dn nn md tb mk]. cbn.
  destruct (negb (a =? 0) && negb (mem_N a df)) eqn:E; cbn.
  - match goal with |- context [if ?c then _ else _] => destruct c eqn:E2 end; intros H; inversion H; subst; cbn.
    repeat split; try reflexivity. unfold len_N in *. cbn [length] in *. lia.
  - intros H; inversion H; subst; cbn. repeat split; try reflexivity. lia.
Qed.

Lemma handle_scalar_ok e v st ht e1 : handle_scalar e v st ht = (e1, None) ->
  e_budget e1 = e_budget e /\ e_per_document e1 = e_per_document e /\ e_depth e1 = e_depth e
  /\ e_defined e1 = e_defined e
  /\ r_events (e_report e1) = r_events (e_report e) /\ r_nodes (e_report e1) = r_nodes (e_report e)
  /\ r_aliases (e_report e1) = r_aliases (e_report e) /\ r_documents (e_report e1) = r_documents (e_report e)
  /\ r_total_scalar_bytes (e_report e1) = r_total_scalar_bytes (e_report e)
  /\ r_anchors (e_report e1) = r_anchors (e_report e)
  /\ r_max_depth (e_report e1) = r_max_depth (e_report e)
  /\ r_merge_keys (e_report e1) <= N.max (r_merge_keys (e_report e)) (max_merge_keys (e_budget e))
  /\ r_merge_keys (e_report e) <= r_merge_keys (e_report e1).
Proof.
  unfold handle_scalar. destruct e as [b r d df cs pd]. destruct r as [br evn al an dn nn md tb mk]. cbn.
  destr_step; intros H; inversion H; subst; cbn; repeat split; try reflexivity; try lia.
Qed.

Lemma observe_step e ev e' : e_per_document e = false ->
  observe e ev = (e', None) -> step_facts e e' ev.
Proof.
  intros Hpd. unfold observe.
  destruct (N.ltb_spec (max_events (e_budget (set_report e (upd_events (e_report e) (r_events (e_report e) + 1)))))
                       (r_events (upd_events (e_report e) (r_events (e_report e) + 1)))) as [Hlt|Hev]; [discriminate|].
  destruct e as [b r d df cs pd]. destruct r as [br evn al an dn nn md tb mk].
  cbn [e_budget e_report set_report upd_events r_events] in Hev.
  cbn in Hpd. subst pd.
  destruct ev; cbn [bind].
  - (* StreamStart *) intros H; inversion H; subst; constructor; cbn; auto; try lia.
  - intros H; inversion H; subst; constructor; cbn; auto; try lia.
  - (* DocStart *)
    cbn. match goal with |- context [if ?c then _ else _] => destruct c eqn:E end; intros H; inversion H; subst.
    constructor; cbn; auto; try lia.
  - intros H; inversion H; subst; constructor; cbn; auto; try lia.
  - (* Alias *)
    cbn. match goal with |- context [if ?c then _ else _] => destruct c eqn:E end; intros H; inversion H; subst.
    unfold handle_alias; cbn. destr_step; constructor; cbn; auto; try lia.
  - (* Scalar *)
    unfold bind.
    destruct (bump_nodes _) as [e1 [b1|]] eqn:B1; [discriminate|].
    apply bump_nodes_ok in B1. destruct B1 as [-> Hn]. cbn in Hn.
    cbn [e_report set_report upd_nodes r_total_scalar_bytes upd_events e_budget].
    match goal with |- context [if ?c then _ else _] => destruct c eqn:E end; [discriminate|].
    destruct (record_anchor _ anchor) as [e3 [b3|]] eqn:B3; [discriminate|].
    apply record_anchor_ok in B3. cbn in B3.
    destruct B3 as (Hb & Hp & Hd & Hc & Hdef & Hlim & Han & H1 & H2 & H3 & H4 & H5 & H6 & H7).
    intros H. apply handle_scalar_ok in H.
    destruct H as (Gb & Gp & Gd & Gdef & G1 & G2 & G3 & G4 & G5 & G6 & G7 & G8 & G9).
    constructor; cbn; try congruence; try lia;
      try (intros _; left; rewrite G5, H5; reflexivity);
      try (intros _; rewrite Gdef, Hdef; reflexivity);
      try (rewrite Gdef; rewrite Hdef in *;
           match goal with |- context [if ?c then _ else _] => destruct c end; unfold len_N in *; cbn [length] in *; lia).
  - (* SeqStart *)
    unfold bind.
    destruct (bump_nodes _) as [e1 [b1|]] eqn:B1; [discriminate|].
    apply bump_nodes_ok in B1. destruct B1 as [-> Hn]. cbn in Hn.
    destruct (enter_depth _) as [e2 [b2|]] eqn:B2; [discriminate|].
    apply enter_depth_ok in B2. cbn in B2.
    destruct B2 as (Fb & Fp & Fdef & Fc & F1 & F2 & F3 & F4 & F5 & F6 & F7 & F8 & F9).
    destruct (entering_container (e_containers e2)) as [fmv cs'] eqn:EC.
    intros H. apply record_anchor_ok in H. cbn in H.
    destruct H as (Hb & Hp & Hd & Hc & Hdef & Hlim & Han & H1 & H2 & H3 & H4 & H5 & H6 & H7).
    constructor; cbn; try congruence; try lia;
      try (intros _; right; split; [reflexivity|]; rewrite H5, F5; reflexivity);
      try (intros _; rewrite Hdef, Fdef; reflexivity);
      try (rewrite Hdef in *; rewrite Fdef in *; rewrite Fb in *;
           match goal with |- context [if ?c then _ else _] => destruct c end; unfold len_N in *; cbn [length] in *; lia).
  - (* SeqEnd *)
    cbn. destr_step; intros H; inversion H; subst; constructor; cbn; auto; try lia.
  - (* MapStart *)
    unfold bind.
    destruct (bump_nodes _) as [e1 [b1|]] eqn:B1; [discriminate|].
    apply bump_nodes_ok in B1. destruct B1 as [-> Hn]. cbn in Hn.
    destruct (enter_depth _) as [e2 [b2|]] eqn:B2; [discriminate|].
    apply enter_depth_ok in B2. cbn in B2.
    destruct B2 as (Fb & Fp & Fdef & Fc & F1 & F2 & F3 & F4 & F5 & F6 & F7 & F8 & F9).
    destruct (entering_container (e_containers e2)) as [fmv cs'] eqn:EC.
    intros H. apply record_anchor_ok in H. cbn in H.
    destruct H as (Hb & Hp & Hd & Hc & Hdef & Hlim & Han & H1 & H2 & H3 & H4 & H5 & H6 & H7).
    constructor; cbn; try congruence; try lia;
      try (intros _; right; split; [reflexivity|]; rewrite H5, F5; reflexivity);
      try (intros _; rewrite Hdef, Fdef; reflexivity);
      try (rewrite Hdef in *; rewrite Fdef in *; rewrite Fb in *;
           match goal with |- context [if ?c then _ else _] => destruct c end; unfold len_N in *; cbn [length] in *; lia).
  - (* MapEnd *)
    cbn. destr_step; intros H; inversion H; subst; constructor; cbn; auto; try lia.
  - intros H; inversion H; subst; constructor; cbn; auto; try lia.
Qed.

(* ---- lifting to whole event lists ---- *)
Lemma sat_add_exact a b : a + b <= USIZE_MAX -> sat_add a b = a + b.
Proof. unfold sat_add. intros H. destruct (N.ltb_spec USIZE_MAX (a + b)); [lia|reflexivity]. Qed.

Lemma run_counts : forall evs e e', e_per_document e = false -> run e evs = (e', None) ->
  e_per_document e' = false /\ e_budget e' = e_budget e
  /\ r_events (e_report e') = r_events (e_report e) + len_N evs
  /\ r_nodes (e_report e') = r_nodes (e_report e) + count is_node evs
  /\ r_aliases (e_report e') = r_aliases (e_report e) + count is_alias evs
  /\ r_documents (e_report e') = r_documents (e_report e) + count is_docstart evs
  /\ len_N (e_defined e') = distinct_anchors (e_defined e) evs
  /\ (r_total_scalar_bytes (e_report e) + sum_bytes evs <= USIZE_MAX ->
      r_total_scalar_bytes (e_report e') = r_total_scalar_bytes (e_report e) + sum_bytes evs).
Proof.
  induction evs as [|ev r IH]; intros e e' Hpd Hrun; cbn [run] in Hrun.
  - inversion Hrun; subst. cbn. unfold len_N; cbn. repeat split; try lia. 
  - destruct (observe e ev) as [e1 [b1|]] eqn:Ho; [discriminate|].
    pose proof (observe_step e ev e1 Hpd Ho) as SF.
    assert (Hpd1 : e_per_document e1 = false) by (rewrite (sf_policy _ _ _ SF); exact Hpd).
    destruct (IH e1 e' Hpd1 Hrun) as (I0 & I1 & I2 & I3 & I4 & I5 & I6 & I7).
    split; [exact I0|]. split; [rewrite I1; apply (sf_budget _ _ _ SF)|].
    cbn [count sum_bytes distinct_anchors].
    rewrite I2, I3, I4, I5, I6.
    rewrite (sf_events _ _ _ SF), (sf_nodes _ _ _ SF), (sf_aliases _ _ _ SF), (sf_docs _ _ _ SF Hpd), (sf_defined _ _ _ SF Hpd).
    unfold len_N; cbn [length]. repeat split; try lia.
    + cbn zeta. destruct (negb (anchor_of ev =? 0) && negb (mem_N (anchor_of ev) (e_defined e))); reflexivity.
    + intros Hsum. 
      destruct (sf_bytes _ _ _ SF Hpd) as [Hb|[Hz Hb]].
      * rewrite sat_add_exact in Hb by lia. rewrite I7; lia.
      * rewrite I7; lia.
Qed.

(* accepted => within every limit (soundness of acceptance) *)
Lemma run_within : forall evs e e', e_per_document e = false -> run e evs = (e', None) ->
  let b := e_budget e in
  r_max_depth (e_report e') <= N.max (r_max_depth (e_report e)) (max_depth b)
  /\ r_merge_keys (e_report e') <= N.max (r_merge_keys (e_report e)) (max_merge_keys b)
  /\ len_N (e_defined e') <= N.max (len_N (e_defined e)) (max_anchors b)
  /\ r_total_scalar_bytes (e_report e') <= N.max (r_total_scalar_bytes (e_report e)) (max_total_scalar_bytes b)
  /\ r_documents (e_report e') <= N.max (r_documents (e_report e)) (max_documents b)
  /\ r_events (e_report e') <= N.max (r_events (e_report e)) (max_events b)
  /\ r_nodes (e_report e') <= N.max (r_nodes (e_report e)) (max_nodes b)
  /\ r_aliases (e_report e') <= N.max (r_aliases (e_report e)) (max_aliases b).
Proof.
  induction evs as [|ev r IH]; intros e e' Hpd Hrun; cbn [run] in Hrun.
  - inversion Hrun; subst. cbn zeta. repeat split; lia.
  - destruct (observe e ev) as [e1 [b1|]] eqn:Ho; [discriminate|].
    pose proof (observe_step e ev e1 Hpd Ho) as SF.
    assert (Hpd1 : e_per_document e1 = false) by (rewrite (sf_policy _ _ _ SF); exact Hpd).
    specialize (IH e1 e' Hpd1 Hrun). cbn zeta in *. rewrite (sf_budget _ _ _ SF) in IH.
    destruct IH as (I1 & I2 & I3 & I4 & I5 & I6 & I7 & I8).
    pose proof (sf_depth_lim _ _ _ SF). pose proof (sf_merge_lim _ _ _ SF).
    pose proof (sf_anchor_lim _ _ _ SF). pose proof (sf_bytes_lim _ _ _ SF). pose proof (sf_docs_lim _ _ _ SF).
    destruct (sf_limits _ _ _ SF) as (L1 & L2 & L3).
    pose proof (sf_nodes _ _ _ SF) as Hn. pose proof (sf_aliases _ _ _ SF) as Ha.
    repeat split; try lia.
    + destruct (is_node ev); lia.
    + destruct (is_alias ev); lia.
Qed.

(* ---- a breach names a counter that has just passed its limit by one ---- *)
Definition breach_exact (e : enforcer) (br : breach) : Prop :=
  let b := e_budget e in let r := e_report e in
  match br with
  | BrEvents n => n = r_events r + 1 /\ max_events b < n
  | BrNodes n => n = r_nodes r + 1 /\ max_nodes b < n
  | BrAliases n => n = r_aliases r + 1 /\ max_aliases b < n
  | BrDocuments n => n = r_documents r + 1 /\ max_documents b < n
  | BrMergeKeys n => n = r_merge_keys r + 1 /\ max_merge_keys b < n
  | BrAnchors n => n = len_N (e_defined e) + 1 /\ max_anchors b < n
  | BrDepth n => n = N.max (r_max_depth r) (sat_add (e_depth e) 1) /\ max_depth b < n
  | BrScalarBytes n => max_total_scalar_bytes b < n /\ r_total_scalar_bytes r <= n
  | BrUnbalanced => True
  | BrRatio _ _ => False
  end.

Ltac split_ltb :=
  match goal with |- context [if ?a <? ?b then _ else _] => destruct (N.ltb_spec a b) end.
Ltac brk := let Hx := fresh "Hx" in intros Hx; inversion Hx; subst; cbn.

Lemma sat_bytes_ge tb v n : n = sat_add tb v -> tb <= USIZE_MAX \/ True -> tb <= n \/ USIZE_MAX < tb.
Proof. intros -> _. unfold sat_add. destruct (N.ltb_spec USIZE_MAX (tb + v)); lia. Qed.

Lemma observe_breach e ev e' br : e_per_document e = false ->
  r_total_scalar_bytes (e_report e) <= USIZE_MAX ->
  observe e ev = (e', Some br) -> breach_exact e br.
Proof.
  intros Hpd Htb. unfold observe.
  destruct e as [b r d df cs pd]. destruct r as [brr evn al an dn nn md tb mk]. cbn in Hpd, Htb; subst pd.
  cbn [e_budget e_report set_report upd_events r_events].
  split_ltb. { brk. lia. }
  destruct ev; cbn [bind]; try discriminate.
  - (* DocStart *) cbn. split_ltb; brk. lia.
  - (* Alias *) cbn. split_ltb; brk. lia.
  - (* Scalar *)
    unfold bind, bump_nodes. cbn.
    split_ltb. { brk. lia. }
    split_ltb. { brk. cbn in *. split; [assumption|]. unfold sat_add. destruct (N.ltb_spec USIZE_MAX (tb + utf8_str_len value)); lia. }
    unfold record_anchor. cbn.
    destruct (negb (anchor =? 0) && negb (mem_N anchor df)) eqn:EA; cbn.
    + split_ltb. { brk. unfold len_N in *. cbn [length] in *. lia. }
      unfold handle_scalar; cbn. destr_step; brk; try lia.
      all: match goal with Hy : (_ <? _) = true |- _ => apply N.ltb_lt in Hy end; lia.
    + unfold handle_scalar; cbn. destr_step; brk; try lia.
      all: match goal with Hy : (_ <? _) = true |- _ => apply N.ltb_lt in Hy end; lia.
  - (* SeqStart *)
    unfold bind, bump_nodes. cbn.
    split_ltb. { brk. lia. }
    unfold enter_depth. cbn.
    split_ltb; cbn; split_ltb; try (brk; cbn in *; lia);
      destruct (entering_container cs) as [fmv cs']; unfold record_anchor; cbn -[N.of_nat];
      destruct (negb (anchor =? 0) && negb (mem_N anchor df)); cbn -[N.of_nat];
      try split_ltb; brk; unfold len_N in *; cbn [length] in *; lia.
  - (* SeqEnd *) cbn. destr_step; brk; exact I.
  - (* MapStart *)
    unfold bind, bump_nodes. cbn.
    split_ltb. { brk. lia. }
    unfold enter_depth. cbn.
    split_ltb; cbn; split_ltb; try (brk; cbn in *; lia);
      destruct (entering_container cs) as [fmv cs']; unfold record_anchor; cbn -[N.of_nat];
      destruct (negb (anchor =? 0) && negb (mem_N anchor df)); cbn -[N.of_nat];
      try split_ltb; brk; unfold len_N in *; cbn [length] in *; lia.
  - (* MapEnd *) cbn. destr_step; brk; exact I.
Qed.

(* the first breach of a run: the events before it were accepted, and it is exact *)
Lemma sat_add_le a b : sat_add a b <= USIZE_MAX.
Proof. unfold sat_add. destruct (N.ltb_spec USIZE_MAX (a + b)); lia. Qed.

Lemma run_first_breach : forall evs e e' br, e_per_document e = false ->
  r_total_scalar_bytes (e_report e) <= USIZE_MAX ->
  run e evs = (e', Some br) ->
  exists pre ev post e1, evs = pre ++ ev :: post /\ run e pre = (e1, None) /\ breach_exact e1 br.
Proof.
  induction evs as [|ev r IH]; intros e e' br Hpd Htb Hrun; cbn [run] in Hrun; [discriminate|].
  destruct (observe e ev) as [e1 [b1|]] eqn:Ho.
  - inversion Hrun; subst. exists [], ev, r, e. repeat split. eapply observe_breach; eauto.
  - pose proof (observe_step e ev e1 Hpd Ho) as SF.
    assert (Hpd1 : e_per_document e1 = false) by (rewrite (sf_policy _ _ _ SF); exact Hpd).
    assert (Htb1 : r_total_scalar_bytes (e_report e1) <= USIZE_MAX).
    { destruct (sf_bytes _ _ _ SF Hpd) as [Hb|[_ Hb]]; rewrite Hb; [apply sat_add_le|exact Htb]. }
    destruct (IH e1 e' br Hpd1 Htb1 Hrun) as (pre & ev' & post & e2 & -> & Hr & Hb).
    exists (ev :: pre), ev', post, e2. repeat split; [|exact Hb]. cbn [run]. rewrite Ho. exact Hr.
Qed.

(* ---- the statements used by Props/C07.v, for a fresh enforcer under the AllContent policy ---- *)
Theorem accepted_report_is_exact b evs e' :
  run (enforcer_new b false) evs = (e', None) ->
  let r := into_report e' in
  r_events r = len_N evs /\ r_nodes r = count is_node evs /\ r_aliases r = count is_alias evs
  /\ r_documents r = count is_docstart evs /\ r_anchors r = distinct_anchors [] evs
  /\ (sum_bytes evs <= USIZE_MAX -> r_total_scalar_bytes r = sum_bytes evs).
Proof.
  intros Hrun. destruct (run_counts evs (enforcer_new b false) e' eq_refl Hrun) as (_ & _ & H1 & H2 & H3 & H4 & H5 & H6).
  cbn in *. repeat split; try lia.
Qed.

Theorem accepted_is_within_limits b evs e' :
  run (enforcer_new b false) evs = (e', None) ->
  len_N evs <= max_events b /\ count is_node evs <= max_nodes b /\ count is_alias evs <= max_aliases b
  /\ count is_docstart evs <= max_documents b /\ distinct_anchors [] evs <= max_anchors b
  /\ r_max_depth (e_report e') <= max_depth b /\ r_merge_keys (e_report e') <= max_merge_keys b
  /\ r_total_scalar_bytes (e_report e') <= max_total_scalar_bytes b.
Proof.
  intros Hrun. destruct (run_counts evs (enforcer_new b false) e' eq_refl Hrun) as (_ & _ & H1 & H2 & H3 & H4 & H5 & _).
  destruct (run_within evs (enforcer_new b false) e' eq_refl Hrun) as (W1 & W2 & W3 & W4 & W5 & W6 & W7 & W8).
  cbn in *. unfold len_N in *. cbn [length] in *. repeat split; lia.
Qed.

Theorem rejection_is_exact b evs e' br :
  run (enforcer_new b false) evs = (e', Some br) ->
  exists pre ev post e1, evs = pre ++ ev :: post /\ run (enforcer_new b false) pre = (e1, None)
    /\ e_budget e1 = b /\ breach_exact e1 br
    /\ r_events (e_report e1) = len_N pre /\ r_nodes (e_report e1) = count is_node pre
    /\ r_aliases (e_report e1) = count is_alias pre /\ r_documents (e_report e1) = count is_docstart pre
    /\ len_N (e_defined e1) = distinct_anchors [] pre.
Proof.
  intros Hrun.
  destruct (run_first_breach evs (enforcer_new b false) e' br eq_refl ltac:(cbn; lia) Hrun) as (pre & ev & post & e1 & -> & Hr & Hb).
  destruct (run_counts pre (enforcer_new b false) e1 eq_refl Hr) as (_ & Hbud & H1 & H2 & H3 & H4 & H5 & _).
  exists pre, ev, post, e1. cbn in *. repeat split; try assumption; lia.
Qed.

(* Non-vacuity: a concrete stream that is accepted at the exact limit and rejected one below it *)
Definition ex_stream : list raw_ev :=
  [RStreamStart; RDocStart false; RMapStart 0 None; RScalar [97] Plain 1 None; RSeqStart 0 None;
   RScalar [49] Plain 0 None; RAlias 1; RSeqEnd; RMapEnd; RDocEnd; RStreamEnd].
Definition ex_budget (nodes : N) : budget := mkBudget 100 100 100 100 100 nodes 100 100 false 0 0.
Example threshold_example :
  snd (run (enforcer_new (ex_budget 4) false) ex_stream) = None /\
  snd (run (enforcer_new (ex_budget 3) false) ex_stream) = Some (BrNodes 4).
Proof. split; vm_compute; reflexivity. Qed.

(* ---- post-scan heuristic and the per-document policy ---- *)
Definition ratio_cond (b : budget) (a n : N) : bool :=
  enforce_alias_anchor_ratio b && (alias_anchor_min_aliases b <=? a)
  && ((n =? 0) || (alias_anchor_ratio_multiplier b * n <? a)).

Lemma ratio_cond_iff b a n :
  ratio_cond b a n = true <->
  (enforce_alias_anchor_ratio b = true /\ alias_anchor_min_aliases b <= a
   /\ (n = 0 \/ alias_anchor_ratio_multiplier b * n < a)).
Proof.
  unfold ratio_cond.
  rewrite !Bool.andb_true_iff, Bool.orb_true_iff, N.leb_le, N.eqb_eq, N.ltb_lt. tauto.
Qed.

Lemma finalize_ratio e :
  let a := r_aliases (e_report e) in let n := len_N (e_defined e) in
  let counted := upd_anchors (e_report e) n in
  finalize e = if ratio_cond (e_budget e) a n then upd_breached counted (Some (BrRatio a n)) else counted.
Proof. reflexivity. Qed.

Definition fresh_document_state (e : enforcer) : enforcer :=
  mkEnf (e_budget e)
        (mkReport (r_breached (e_report e)) 0 0 0 (r_documents (e_report e)) 0 0 0 0)
        0 [] [] true.

(* Under the per-document policy, the state after a document start is the fresh state, whatever
   was counted before: quantities are per document. *)
Lemma perdoc_document_start_is_fresh e x :
  e_per_document e = true -> e_depth e = 0 -> e_containers e = [] ->
  r_events (e_report e) + 1 <= max_events (e_budget e) ->
  observe e (RDocStart x) = (fresh_document_state e, None).
Proof.
  intros Hpd Hd Hc Hev. destruct e as [b r d df cs pd]. destruct r as [brr evn al an dn nn md tb mk].
  cbn in *. subst. unfold observe. cbn.
  destruct (N.ltb_spec (max_events b) (evn + 1)); [lia|reflexivity].
Qed.

Lemma perdoc_after_skip_is_fresh e :
  e_per_document e = true -> document_started_after_skip e = fresh_document_state e.
Proof. intros Hpd. unfold document_started_after_skip. rewrite Hpd. reflexivity. Qed.

