(* Position.v -- C16: the four coordinates of a location denote one position of the text; the
   span-carrying wrapper reports the node's own location and the use site; a scalar type error is
   reported at the position a span-carrying value gives for that node. *)
From SS Require Import Model.Position Model.Deser.
From Coq Require Import Lia ZifyBool ZifyN ZifyNat.
Local Open Scope N_scope.

(* ---- marks ---- *)
Fixpoint breaks_upto (s : str) (n : nat) : N :=
  match n, s with
  | S n', c :: r => (if breaks_here c r then 1 else 0) + breaks_upto r n'
  | _, _ => 0
  end.
Fixpoint col_upto (s : str) (n : nat) (acc : N) : N :=
  match n, s with
  | S n', c :: r => if breaks_here c r then col_upto r n' 0 else col_upto r n' (acc + 1)
  | _, _ => acc
  end.

Lemma scan_closed : forall s n line col byte,
  scan s n line col byte = (line + breaks_upto s n, col_upto s n col, byte + utf8_str_len (firstn n s)).
Proof.
  induction s as [|c r IH]; intros n line col byte.
  - destruct n; cbn [scan breaks_upto col_upto firstn utf8_str_len]; rewrite !N.add_0_r; reflexivity.
  - destruct n as [|n]; [cbn [scan breaks_upto col_upto firstn utf8_str_len]; rewrite !N.add_0_r; reflexivity|].
    cbn [scan breaks_upto col_upto firstn utf8_str_len]. destruct (breaks_here c r); rewrite IH;
      rewrite ?N.add_0_l, ?N.add_0_r, !N.add_assoc; reflexivity.
Qed.

Lemma utf8_len_enc1 c : N.of_nat (length (utf8_enc1 c)) = utf8_len c.
Proof. unfold utf8_enc1, utf8_len. destruct (c <? 128), (c <? 2048), (c <? 65536); reflexivity. Qed.

Lemma utf8_str_len_enc s : N.of_nat (length (utf8_enc s)) = utf8_str_len s.
Proof.
  induction s as [|c r IH]; [reflexivity|]. unfold utf8_enc in *. cbn [flat_map utf8_str_len].
  rewrite app_length, Nat2N.inj_add, IH, utf8_len_enc1. reflexivity.
Qed.

Lemma utf8_enc_app a b : utf8_enc (a ++ b) = utf8_enc a ++ utf8_enc b.
Proof. unfold utf8_enc. apply flat_map_app. Qed.

(* the byte offset of a mark cuts the encoded text exactly where the character offset cuts the text *)
Theorem mark_byte_offset_denotes_same_position text idx b :
  mk_byte (mark_at text idx) = Some b ->
  firstn (N.to_nat b) (utf8_enc text) = utf8_enc (firstn (N.to_nat idx) text)
  /\ skipn (N.to_nat b) (utf8_enc text) = utf8_enc (skipn (N.to_nat idx) text).
Proof.
  unfold mark_at. rewrite scan_closed. cbn [mk_byte]. intros H. inversion H; subst b. clear H.
  rewrite <- utf8_str_len_enc, Nat2N.id.
  set (p := firstn (N.to_nat idx) text).
  assert (E : utf8_enc text = utf8_enc p ++ utf8_enc (skipn (N.to_nat idx) text)).
  { rewrite <- utf8_enc_app. unfold p. rewrite firstn_skipn. reflexivity. }
  rewrite E.
  split.
  - rewrite firstn_app, Nat.sub_diag, firstn_all. cbn [firstn]. apply app_nil_r.
  - rewrite skipn_app, Nat.sub_diag, skipn_all. reflexivity.
Qed.

(* line and column: the line number is one more than the number of line breaks before the position,
   and the column counts the characters since the last of them (or since the start) *)
Theorem mark_line_col text idx :
  mk_line (mark_at text idx) = 1 + breaks_upto text (N.to_nat idx)
  /\ mk_col (mark_at text idx) = col_upto text (N.to_nat idx) 0
  /\ mk_index (mark_at text idx) = idx.
Proof. unfold mark_at. rewrite scan_closed. cbn. repeat split; lia. Qed.

(* the characters counted by the column contain no line break, and a break (or the start) precedes them *)
Lemma col_upto_bound : forall s n acc, col_upto s n acc <= acc + N.of_nat n.
Proof.
  induction s as [|c r IH]; intros n acc; destruct n as [|n]; cbn [col_upto]; try lia.
  destruct (breaks_here c r); [specialize (IH n 0)|specialize (IH n (acc + 1))]; lia.
Qed.

Theorem mark_col_within_index text idx : mk_col (mark_at text idx) <= idx.
Proof.
  destruct (mark_line_col text idx) as (_ & -> & _). pose proof (col_upto_bound text (N.to_nat idx) 0). lia.
Qed.

Lemma firstn_plus {A} : forall (a b : nat) (l : list A), firstn (a + b) l = firstn a l ++ firstn b (skipn a l).
Proof.
  induction a as [|a IH]; intros b l; [reflexivity|]. destruct l as [|x r]; [destruct b; reflexivity|].
  cbn [Nat.add firstn skipn app]. rewrite IH. reflexivity.
Qed.

(* ---- Location built from two consistent marks ---- *)
Definition chars_slice (text : str) (i j : N) : str := firstn (N.to_nat (j - i)) (skipn (N.to_nat i) text).
Definition bytes_slice (bs : list N) (o l : N) : list N := firstn (N.to_nat l) (skipn (N.to_nat o) bs).

Theorem location_of_marks text i j :
  i <= j -> j <= N.of_nat (length text) -> utf8_str_len text <= U32_MAX -> N.of_nat (length text) < U32_MAX ->
  let l := location_from_span (mkSpan (mark_at text i) (mark_at text j)) in
  l_off l = i /\ l_len l = j - i
  /\ l_line l = 1 + breaks_upto text (N.to_nat i)
  /\ l_col l = col_upto text (N.to_nat i) 0 + 1
  /\ bytes_slice (utf8_enc text) (l_boff l) (l_blen l) = utf8_enc (chars_slice text i j).
Proof.
  intros Hij Hj Hb Hc. unfold location_from_span, mark_at. rewrite !scan_closed.
  cbn [sp_start sp_end mk_byte mk_line mk_col mk_index]. rewrite !N.add_0_l.
  set (bi := utf8_str_len (firstn (N.to_nat i) text)).
  set (bj := utf8_str_len (firstn (N.to_nat j) text)).
  assert (Hmono : forall a b : nat, (a <= b)%nat -> utf8_str_len (firstn a text) <= utf8_str_len (firstn b text)).
  { intros a b Hab. rewrite <- (firstn_skipn a (firstn b text)). rewrite firstn_firstn.
    replace (Nat.min a b) with a by lia.
    assert (forall x y, utf8_str_len (x ++ y) = utf8_str_len x + utf8_str_len y) as Happ.
    { induction x as [|c r IH]; intros y; cbn [app utf8_str_len]; [lia|rewrite IH; lia]. }
    rewrite Happ. lia. }
  assert (Hbj : bj <= utf8_str_len text).
  { unfold bj. specialize (Hmono (N.to_nat j) (length text)). rewrite firstn_all in Hmono. apply Hmono. lia. }
  assert (Hbij : bi <= bj) by (apply Hmono; lia).
  unfold U32_MAX in *.
  assert ((4294967295 <? bi) || (4294967295 <? bj - bi) = false) as -> by lia.
  cbn [l_off l_len l_line l_col l_boff l_blen]. unfold trunc32.
  pose proof (col_upto_bound text (N.to_nat i) 0) as Hcol.
  assert (Hbr : forall s n, breaks_upto s n <= N.of_nat n).
  { induction s as [|c r IH]; intros n; destruct n as [|n]; cbn [breaks_upto]; try lia.
    specialize (IH n). destruct (breaks_here c r); lia. }
  specialize (Hbr text (N.to_nat i)).
  split; [rewrite N.mod_small; lia|]. split; [rewrite N.mod_small; lia|].
  split; [rewrite N.mod_small; lia|]. split; [rewrite N.mod_small; lia|].
  (* the byte slice *)
  unfold bytes_slice, chars_slice.
  assert (Hs : skipn (N.to_nat bi) (utf8_enc text) = utf8_enc (skipn (N.to_nat i) text)).
  { unfold bi. rewrite <- utf8_str_len_enc, Nat2N.id.
    rewrite <- (firstn_skipn (N.to_nat i) text) at 2. rewrite utf8_enc_app, skipn_app, Nat.sub_diag, skipn_all. reflexivity. }
  rewrite Hs.
  set (rest := skipn (N.to_nat i) text).
  assert (Hbl : bj - bi = utf8_str_len (firstn (N.to_nat (j - i)) rest)).
  { unfold bj, bi, rest.
    replace (N.to_nat j) with (N.to_nat i + N.to_nat (j - i))%nat by lia.
    rewrite firstn_plus.
    assert (forall x y, utf8_str_len (x ++ y) = utf8_str_len x + utf8_str_len y) as Happ.
    { induction x as [|c r IH]; intros y; cbn [app utf8_str_len]; [lia|rewrite IH; lia]. }
    rewrite Happ. lia. }
  rewrite Hbl, <- utf8_str_len_enc, Nat2N.id.
  set (q := firstn (N.to_nat (j - i)) rest).
  assert (E : utf8_enc rest = utf8_enc q ++ utf8_enc (skipn (N.to_nat (j - i)) rest)).
  { rewrite <- utf8_enc_app. unfold q. rewrite firstn_skipn. reflexivity. }
  rewrite E, firstn_app, Nat.sub_diag, firstn_all. cbn [firstn]. apply app_nil_r.
Qed.

(* ---- the span-carrying wrapper ---- *)
Theorem spanned_reports_node_and_use_site f c k t x e x' v x2 :
  src_peek x = NSome e x' ->
  deser f c false t x' = DOk v x2 ->
  deser (S f) c k (TSpanned t) x = DOk (VSpanned (src_reference_location x') (ev_loc e) v) x2.
Proof. intros Hp Hd. cbn [deser]. rewrite Hp, Hd. reflexivity. Qed.

(* through an alias / merge entry the replay buffer carries the use site explicitly *)
Theorem replay_reference_is_use_site buf r prev :
  src_reference_location (SReplay prev buf (Some r)) = r.
Proof. reflexivity. Qed.

Theorem live_reference_is_injected_use_site s rest op fr below :
  lv_inject s = fr :: below -> src_reference_location (SLive s rest op) = if_ref fr.
Proof. intros H. cbn. unfold reference_location. rewrite H. reflexivity. Qed.

(* after a peek the next event is the peeked one *)
Lemma peek_then_next x e x' : src_peek x = NSome e x' -> exists x2, src_next x' = NSome e x2.
Proof.
  destruct x as [s rest op|prev buf ref]; cbn [src_peek].
  - unfold live_peek. destruct (lv_look s) as [e0|] eqn:L.
    + intros H. inversion H; subst. cbn [src_next]. unfold live_next.
      destruct s; cbn in *. subst. eauto.
    + destruct (next_impl s rest) as [e1 s1 r1|s1 r1|e1 s1 r1]; try discriminate.
      intros H. inversion H; subst. cbn [src_next]. unfold live_next.
      destruct s1; cbn. eauto.
  - destruct buf as [|e0 r]; [discriminate|]. intros H; inversion H; subst. cbn [src_next]. eauto.
Qed.

(* a scalar type error is reported at the location the span-carrying wrapper calls `defined` *)
Theorem scalar_type_error_at_spanned_position f c k t x e x' cl l :
  src_peek x = NSome e x' ->
  (exists v tag raw st a le, e = EScalar v tag raw st a le) ->
  t = TBool \/ (exists s b, t = TInt s b) \/ t = TF64 \/ t = TChar ->
  deser (S f) c k t x' = DErr (Err cl l) -> l = ev_loc e.
Proof.
  intros Hp (v & tag & raw & st & a & le & ->) Ht Hd.
  destruct (peek_then_next _ _ _ Hp) as [x2 Hn].
  assert (Hts : take_scalar x' E_Unexpected = inl (EScalar v tag raw st a le, x2)).
  { unfold take_scalar. rewrite Hn. reflexivity. }
  destruct Ht as [->|[(s & b & ->)|[->| ->]]]; cbn [deser] in Hd; rewrite Hts in Hd;
    unfold sres_to_dres in Hd;
    match type of Hd with context [sres_val false ?r] => destruct (sres_val false r); [discriminate|destruct r; inversion Hd; reflexivity] end.
Qed.

(* errors raised under an alias: both sites are reported whenever they are known and differ *)
Theorem alias_error_reports_both_sites e reference defined :
  loc_known reference = true -> loc_known defined = true -> loc_eqb reference defined = false ->
  attach_alias_locations e reference defined = ErrAlias reference defined.
Proof. intros H1 H2 H3. unfold attach_alias_locations. rewrite H1, H2, H3. reflexivity. Qed.

Theorem plain_error_keeps_or_gets_location e reference defined :
  loc_eqb reference defined = true ->
  attach_alias_locations e reference defined =
    if err_has_location e then e else err_with_location e (if loc_known reference then reference else defined).
Proof. intros H. unfold attach_alias_locations. rewrite H. rewrite andb_false_r. reflexivity. Qed.
