(* SnippetRows.v -- C17: the table of line starts (src/de/snippet.rs line_starts) is exactly "0, and the position
   after every line break", in increasing order and inside the text; hence the byte window [a, b) that
   window_bounds cuts out for rows ws..we is a well-formed range that starts at the start of row ws and ends at the
   start of row we + 1 (or at the end of the text). *)
From SS Require Import Model.Snippet.
From Coq Require Import Lia ZifyBool ZifyN ZifyNat Sorted.
Local Open Scope N_scope.

(* 0-based positions of the line breaks of s (LF, CRLF counted at its LF, lone CR) *)
Fixpoint breaks (s : bytes) : list nat :=
  match s with
  | [] => []
  | b :: r => (if is_break_at b r then [O] else []) ++ map S (breaks r)
  end.

Lemma line_starts_go_breaks : forall s i,
  line_starts_go s i = map (fun k => i + N.of_nat k + 1) (breaks s).
Proof.
  induction s as [|b r IH]; intros i; [reflexivity|].
  cbn [line_starts_go breaks]. rewrite IH.
  assert (E : map (fun k : nat => i + 1 + N.of_nat k + 1) (breaks r)
            = map (fun k : nat => i + N.of_nat k + 1) (map S (breaks r))).
  { rewrite map_map. apply map_ext. intros k. lia. }
  destruct (is_break_at b r); cbn [app map]; rewrite E; [|reflexivity].
  f_equal. lia.
Qed.

Lemma breaks_bounded : forall s k, In k (breaks s) -> (k < length s)%nat.
Proof.
  induction s as [|b r IH]; intros k Hin; [destruct Hin|].
  cbn [breaks] in Hin. apply in_app_or in Hin. destruct Hin as [Hin|Hin].
  - destruct (is_break_at b r); [|destruct Hin]. destruct Hin as [<-|[]]. cbn. lia.
  - apply in_map_iff in Hin. destruct Hin as (k' & <- & Hk). apply IH in Hk. cbn. lia.
Qed.

Lemma breaks_sorted : forall s, StronglySorted lt (breaks s).
Proof.
  induction s as [|b r IH]; [constructor|]. cbn [breaks].
  assert (HS : StronglySorted lt (map S (breaks r))).
  { clear -IH. induction IH as [|x l _ IHl Hx]; [constructor|]. cbn. constructor; [exact IHl|].
    apply Forall_forall. intros y Hy. apply in_map_iff in Hy. destruct Hy as (y' & <- & Hy').
    rewrite Forall_forall in Hx. specialize (Hx _ Hy'). lia. }
  destruct (is_break_at b r); cbn [app]; [|exact HS].
  constructor; [exact HS|]. apply Forall_forall. intros y Hy. apply in_map_iff in Hy. destruct Hy as (y' & <- & _). lia.
Qed.

(* a position is a break exactly when the byte there ends a line *)
Lemma breaks_spec : forall s k,
  In k (breaks s) <-> exists b, nth_error s k = Some b /\ is_break_at b (skipn (S k) s) = true.
Proof.
  induction s as [|b r IH]; intros k.
  - split; [intros []|intros (b & H & _); destruct k; discriminate].
  - cbn [breaks]. split.
    + intros Hin. apply in_app_or in Hin. destruct Hin as [Hin|Hin].
      * destruct (is_break_at b r) eqn:E; [|destruct Hin]. destruct Hin as [<-|[]]. exists b. split; [reflexivity|exact E].
      * apply in_map_iff in Hin. destruct Hin as (k' & <- & Hk). apply IH in Hk. destruct Hk as (b' & H1 & H2).
        exists b'. split; [exact H1|exact H2].
    + intros (b' & H1 & H2). apply in_or_app. destruct k as [|k'].
      * left. cbn in H1. inversion H1; subst. cbn [skipn] in H2. rewrite H2. left. reflexivity.
      * right. apply in_map. apply IH. exists b'. split; [exact H1|exact H2].
Qed.

(* the table of line starts: 0 and the position after every break, increasing, inside the text *)
Theorem line_starts_are_break_successors s :
  s <> [] -> line_starts s = 0 :: map (fun k => N.of_nat k + 1) (breaks s).
Proof.
  intros Hne. destruct s as [|b r]; [congruence|]. unfold line_starts.
  rewrite line_starts_go_breaks. f_equal.
Qed.

Theorem line_starts_sorted s : StronglySorted N.lt (line_starts s).
Proof.
  destruct s as [|b r]; [constructor|]. rewrite line_starts_are_break_successors by discriminate.
  pose proof (breaks_sorted (b :: r)) as HS.
  assert (HM : StronglySorted N.lt (map (fun k => N.of_nat k + 1) (breaks (b :: r)))).
  { induction HS as [|x l _ IHl Hx]; [constructor|]. cbn. constructor; [exact IHl|].
    apply Forall_forall. intros y Hy. apply in_map_iff in Hy. destruct Hy as (y' & <- & Hy').
    rewrite Forall_forall in Hx. specialize (Hx _ Hy'). lia. }
  constructor; [exact HM|]. apply Forall_forall. intros y Hy. apply in_map_iff in Hy. destruct Hy as (y' & <- & _). lia.
Qed.

Theorem line_starts_inside s : Forall (fun p => p <= blen s) (line_starts s).
Proof.
  destruct s as [|b r]; [constructor|]. rewrite line_starts_are_break_successors by discriminate.
  constructor; [unfold blen; lia|]. apply Forall_forall. intros y Hy. apply in_map_iff in Hy.
  destruct Hy as (k & <- & Hk). apply breaks_bounded in Hk. unfold blen. lia.
Qed.

(* nth of a sorted list is monotone *)
Lemma sorted_nth_le (l : list N) : StronglySorted N.lt l ->
  forall i j, (i <= j)%nat -> (j < length l)%nat -> nth i l 0 <= nth j l 0.
Proof.
  induction 1 as [|x l _ IH Hx]; intros i j Hij Hj; [cbn in Hj; lia|].
  destruct i as [|i]; destruct j as [|j]; cbn [nth]; try lia.
  - rewrite Forall_forall in Hx. assert (In (nth j l 0) l) by (apply nth_In; cbn in Hj; lia).
    specialize (Hx _ H). lia.
  - apply IH; cbn in Hj; lia.
Qed.

(* the window of rows ws..we is a well-formed byte range of the text *)
Theorem window_bounds_well_formed text ws we :
  text <> [] -> 1 <= ws -> ws <= we -> we <= N.of_nat (length (line_starts text)) ->
  let '(a, b) := window_bounds text (line_starts text) ws we in
  a <= b /\ b <= blen text /\
  a = nth (N.to_nat (ws - 1)) (line_starts text) 0 /\
  (we < N.of_nat (length (line_starts text)) -> b = nth (N.to_nat we) (line_starts text) 0) /\
  (we = N.of_nat (length (line_starts text)) -> b = blen text).
Proof.
  intros Hne H1 H2 H3. unfold window_bounds.
  pose proof (line_starts_sorted text) as HS. pose proof (line_starts_inside text) as HI.
  rewrite Forall_forall in HI.
  set (starts := line_starts text) in *.
  assert (Ha : In (nth (N.to_nat (ws - 1)) starts 0) starts) by (apply nth_In; lia).
  destruct (N.ltb_spec we (N.of_nat (length starts))) as [Hlt|Hge].
  - assert (Hb : In (nth (N.to_nat we) starts 0) starts) by (apply nth_In; lia).
    repeat split; try (intros; lia).
    + apply sorted_nth_le; [exact HS|lia|lia].
    + apply HI. exact Hb.
  - repeat split; try (intros; lia).
    apply HI. exact Ha.
Qed.
