(* RoboticsTotal.v -- C19: the expression evaluator is total: the recursive-descent parser (p_expr / expr_loop /
   p_term / term_loop / p_unary / p_primary) never runs out of the fuel 4 * length + 4, for any input, depth, tag
   and mode.  Every parser returns a suffix-length remainder (never longer than its input), every loop iteration
   consumes its operator character, and a parenthesis consumes its '(' before recursing. *)
From SS Require Import Model.Robotics.
From Coq Require Import Lia List.
Import ListNotations.
Local Open Scope nat_scope.

Notation len := (@length N).

Lemma skip_ws_len s : len (skip_ws s) <= len s.
Proof. induction s as [|c r IH]; cbn [skip_ws]; [lia|]. destruct (is_ws_b c); cbn [length]; lia. Qed.

Lemma starts_ci_len kw s r : starts_ci kw s = Some r -> len r <= len s.
Proof.
  revert s r. induction kw as [|k kr IH]; intros s r; cbn [starts_ci].
  - intros H; inversion H; lia.
  - destruct s as [|c s']; [discriminate|]. destruct (N.eqb (lower_b c) k); [|discriminate].
    intros H. apply IH in H. cbn [length]. lia.
Qed.

Lemma scan_digits_len s p acc ds r : scan_digits s p acc = Some (ds, r) -> len r <= len s.
Proof.
  revert p acc. induction s as [|c s' IH]; intros p acc; cbn [scan_digits].
  - intros H; inversion H; cbn; lia.
  - destruct (is_dig c).
    + intros H. apply IH in H. cbn [length]. lia.
    + destruct (N.eqb c 95).
      * destruct (p && match s' with n :: _ => is_dig n | [] => false end)%bool; [|discriminate].
        intros H. apply IH in H. cbn [length]. lia.
      * intros H; inversion H; subst. lia.
Qed.

Lemma read_uint_f_len s p v n v' n' r : read_uint_f s p v n = Some (v', n', r) -> len r <= len s.
Proof.
  revert p v n. induction s as [|c s' IH]; intros p v n; cbn [read_uint_f].
  - destruct (N.eqb n 0); [discriminate|]. intros H; inversion H; cbn; lia.
  - destruct (is_dig c).
    + intros H. apply IH in H. cbn [length]. lia.
    + destruct (N.eqb c 95).
      * destruct (p && match s' with x :: _ => is_dig x | [] => false end)%bool; [|discriminate].
        intros H. apply IH in H. cbn [length]. lia.
      * destruct (N.eqb n 0); [discriminate|]. intros H; inversion H; subst. lia.
Qed.

Lemma read_frac_len s p num sc n v' n' r : read_frac s p num sc n = Some (v', n', r) -> len r <= len s.
Proof.
  revert p num sc n. induction s as [|c s' IH]; intros p num sc n; cbn [read_frac].
  - destruct (N.eqb n 0); [discriminate|]. intros H; inversion H; cbn; lia.
  - destruct (is_dig c).
    + destruct (N.ltb n 18); intros H; apply IH in H; cbn [length]; lia.
    + destruct (N.eqb c 95).
      * destruct (p && match s' with x :: _ => is_dig x | [] => false end)%bool; [|discriminate].
        intros H. apply IH in H. cbn [length]. lia.
      * destruct (N.eqb n 0); [discriminate|]. intros H; inversion H; subst. lia.
Qed.

Lemma take_ident_len s acc : len (snd (take_ident s acc)) <= len s.
Proof.
  revert acc. induction s as [|c r IH]; intros acc; cbn [take_ident]; [cbn; lia|].
  destruct (is_ident_cont c); [specialize (IH (lower_b c :: acc)); cbn [length]; lia|cbn; lia].
Qed.

(* case split of a byte against a literal of at most six bits: afterwards every match on the byte is reduced *)
Ltac split_byte c :=
  let p := fresh "p" in
  destruct c as [|p]; [|do 6 (try destruct p as [p|p|])]; cbv beta iota.

(* length facts from the hypotheses in the context *)
Ltac len_facts :=
  repeat match goal with
  | H : scan_digits ?a _ _ = Some (_, ?b) |- _ => apply scan_digits_len in H
  | H : read_uint_f ?a _ _ _ = Some (_, _, ?b) |- _ => apply read_uint_f_len in H
  | H : read_frac ?a _ _ _ _ = Some (_, _, ?b) |- _ => apply read_frac_len in H
  | H : starts_ci _ ?a = Some ?b |- _ => apply starts_ci_len in H
  end.

Lemma parse_plain_number_ok s : parse_plain_number s <> PFuel /\
  forall v r, parse_plain_number s = POk v r -> len r <= len s.
Proof.
  unfold parse_plain_number.
  destruct (scan_digits s false []) as [[ip r1]|] eqn:E1; [|split; [discriminate|discriminate]].
  match goal with |- context [match ?F with None => PErr | Some _ => _ end] => destruct F as [[[dot fp] r3]|] eqn:EF end;
    [|split; discriminate].
  assert (Hr3 : len r3 <= len r1).
  { revert EF. destruct r1 as [|c r2]; [intros H; inversion H; lia|].
    split_byte c; try solve [intros H; inversion H; lia].
    destruct (scan_digits r2 false []) as [[fp' r3']|] eqn:E2; [|discriminate].
    intros H; inversion H; subst. apply scan_digits_len in E2. cbn [length]. lia. }
  clear EF.
  match goal with |- context [match ?F with None => PErr | Some _ => _ end] => destruct F as [[eo rest]|] eqn:EX end;
    [|split; discriminate].
  assert (Hrest : len rest <= len r3).
  { revert EX. destruct r3 as [|e r4]; [intros H; inversion H; lia|].
    destruct ((e =? 101) || (e =? 69))%N%bool; [|intros H; inversion H; lia].
    destruct (match r4 with
      | c :: r => if (c =? 43)%N then (false, r) else if (c =? 45)%N then (true, r) else (false, r4)
      | [] => (false, r4) end) as [neg r5] eqn:E5.
    assert (H5 : len r5 <= len r4).
    { revert E5. destruct r4 as [|c r]; [intros H; inversion H; lia|].
      destruct (c =? 43)%N; [intros H; inversion H; cbn [length]; lia|].
      destruct (c =? 45)%N; intros H; inversion H; cbn [length]; lia. }
    destruct (scan_digits r5 false []) as [[ed r6]|] eqn:E6; [|discriminate].
    apply scan_digits_len in E6.
    destruct ed; [discriminate|]. intros H; inversion H; subst. cbn [length]. lia. }
  clear EX. apply scan_digits_len in E1.
  destruct ip; destruct fp; split; try discriminate; intros v r H; inversion H; subst; lia.
Qed.

Lemma try_sexagesimal_len s tag t ev r : try_sexagesimal s tag t = Some (Some (ev, r)) -> len r <= len s.
Proof.
  unfold try_sexagesimal.
  destruct (negb (sexa_lookahead s false false)); [discriminate|].
  destruct (read_uint_f s false PrimFloat.zero 0) as [[[whole d1] r1]|] eqn:E1; [|discriminate].
  apply read_uint_f_len in E1.
  destruct r1 as [|c r2]; [discriminate|].
  split_byte c; try discriminate.
  destruct (read_uint_f r2 false PrimFloat.zero 0) as [[[mins d2] r3]|] eqn:E2; [|discriminate].
  apply read_uint_f_len in E2.
  destruct (f_gt mins U32_MAX_F); [discriminate|].
  destruct (f_gt mins 59%float); [discriminate|].
  match goal with |- context [match ?F with None => None | Some _ => _ end = _] => destruct F as [[secs rest]|] eqn:EA end;
    [|discriminate].
  assert (HA : len rest <= len r3).
  { revert EA. destruct r3 as [|c3 r4]; [intros H; inversion H; lia|].
    split_byte c3; try solve [intros H; inversion H; lia].
    destruct (read_uint_f r4 false PrimFloat.zero 0) as [[[sec d3] r5]|] eqn:E4; [|discriminate].
    apply read_uint_f_len in E4.
    destruct (f_gt sec U32_MAX_F); [discriminate|].
    destruct (f_gt sec 59%float); [discriminate|].
    destruct r5 as [|c5 r6]; [intros H; inversion H; subst; cbn [length] in *; lia|].
    split_byte c5; try solve [intros H; inversion H; subst; cbn [length] in *; lia].
    destruct (read_frac r6 false PrimFloat.zero 1%float 0) as [[[fr df] r7]|] eqn:E6; [|discriminate].
    apply read_frac_len in E6. intros H; inversion H; subst. cbn [length] in *. lia. }
  clear EA. intros H; inversion H; subst. cbn [length] in *. lia.
Qed.

Lemma parse_number_ok s tag t : parse_number_or_special s tag t <> PFuel /\
  forall ev r, parse_number_or_special s tag t = POk ev r -> len r <= len s.
Proof.
  unfold parse_number_or_special.
  destruct (starts_ci [46; 105; 110; 102]%N s) as [r0|] eqn:E0.
  { split; [discriminate|]. intros ev r H; inversion H; subst. eapply starts_ci_len; eassumption. }
  destruct (starts_ci [46; 110; 97; 110]%N s) as [r1|] eqn:E1.
  { split; [discriminate|]. intros ev r H; inversion H; subst. eapply starts_ci_len; eassumption. }
  destruct (try_sexagesimal s tag t) as [[[ev0 r2]|]|] eqn:E2.
  - split; [discriminate|]. intros ev r H; inversion H; subst. eapply try_sexagesimal_len; eassumption.
  - destruct (parse_plain_number_ok s) as [Hnf Hlen].
    destruct (parse_plain_number s) as [v r3| |] eqn:E3.
    + split; [discriminate|]. intros ev r H; inversion H; subst. apply (Hlen _ _ eq_refl).
    + split; discriminate.
    + congruence.
  - split; discriminate.
Qed.

(* ------------------------------------------------------------------ the six mutually recursive parsers *)

Definition good (res : pres evalr) (n : nat) : Prop :=
  res <> PFuel /\ forall ev r, res = POk ev r -> len r <= n.

Definition P_primary (n : nat) := forall fuel s d tag t, len s <= n -> 4 * n + 1 <= fuel -> good (p_primary fuel s d tag t) (len s).
Definition P_unary (n : nat) := forall fuel s d tag t, len s <= n -> 4 * n + 2 <= fuel -> good (p_unary fuel s d tag t) (len s).
Definition P_term (n : nat) := forall fuel s d tag t, len s <= n -> 4 * n + 3 <= fuel -> good (p_term fuel s d tag t) (len s).
Definition P_expr (n : nat) := forall fuel s d tag t, len s <= n -> 4 * n + 4 <= fuel -> good (p_expr fuel s d tag t) (len s).
Definition P_tloop (n : nat) := forall fuel acc s d tag t, len s <= n -> 4 * n + 2 <= fuel -> good (term_loop fuel acc s d tag t) (len s).
Definition P_eloop (n : nat) := forall fuel acc s d tag t, len s <= n -> 4 * n + 3 <= fuel -> good (expr_loop fuel acc s d tag t) (len s).

Lemma good_weaken res n m : good res n -> n <= m -> good res m.
Proof. intros [H1 H2] Hle. split; [exact H1|]. intros ev r H. specialize (H2 ev r H). lia. Qed.

(* a parenthesised sub-expression, then ')' *)
Lemma close_paren_good (res : pres evalr) n (k : evalr -> evalr) :
  good res n ->
  good (match res with
        | POk ev r' => match skip_ws r' with
                       | c2 :: r'' => if (c2 =? 41)%N then POk (k ev) r'' else PErr
                       | [] => PErr
                       end
        | PErr => PErr
        | PFuel => PFuel
        end) n.
Proof.
  intros [Hnf Hlen]. destruct res as [ev r'| |]; [|split; discriminate|congruence].
  specialize (Hlen ev r' eq_refl). pose proof (skip_ws_len r') as Hs.
  destruct (skip_ws r') as [|c2 r'']; [split; discriminate|].
  destruct (c2 =? 41)%N; [|split; discriminate].
  split; [discriminate|]. intros ev' r H; inversion H; subst. cbn [length] in Hs. lia.
Qed.

Lemma primary_step n : (forall m, m < n -> P_expr m) -> P_primary n.
Proof.
  intros IH fuel s d tag t Hs Hf.
  destruct fuel as [|f]; [lia|]. cbn [p_primary].
  pose proof (skip_ws_len s) as Hw.
  destruct (skip_ws s) as [|c r] eqn:Es; [split; discriminate|]. cbn [length] in Hw.
  destruct (c =? 40)%N.
  { destruct (MAX_EXPR_DEPTH <=? d)%Z; [split; discriminate|].
    assert (Hr : len r < n) by lia.
    pose proof (IH (len r) Hr f r (d + 1)%Z tag t (le_n _) ltac:(lia)) as G.
    apply good_weaken with (n := len r); [|lia].
    destruct (p_expr f r (d + 1)%Z tag t) as [ev r'| |] eqn:E.
    - pose proof (close_paren_good (POk ev r') (len r) (fun e => e) G) as G'. exact G'.
    - split; discriminate.
    - destruct G as [G _]. congruence. }
  destruct (is_dig c || (c =? 46)%N)%bool.
  { destruct (parse_number_ok (c :: r) tag t) as [Hnf Hlen]. split; [exact Hnf|].
    intros ev r0 H. specialize (Hlen ev r0 H). cbn [length] in Hlen. lia. }
  destruct (is_ident_start c); [|split; discriminate].
  pose proof (take_ident_len (c :: r) []) as Hti.
  destruct (take_ident (c :: r) []) as [ident r1]. cbn [snd length] in Hti.
  destruct (beq ident [112; 105]%N); [split; [discriminate|intros ev r0 H; inversion H; subst; lia]|].
  destruct (beq ident [116; 97; 117]%N); [split; [discriminate|intros ev r0 H; inversion H; subst; lia]|].
  destruct (beq ident [105; 110; 102]%N); [split; [discriminate|intros ev r0 H; inversion H; subst; lia]|].
  destruct (beq ident [110; 97; 110]%N); [split; [discriminate|intros ev r0 H; inversion H; subst; lia]|].
  destruct (beq ident [100; 101; 103]%N || beq ident [114; 97; 100]%N)%bool; [|split; discriminate].
  pose proof (skip_ws_len r1) as Hw1.
  destruct (skip_ws r1) as [|c2 r2]; [split; discriminate|]. cbn [length] in Hw1.
  destruct (c2 =? 40)%N; [|split; discriminate].
  destruct (MAX_EXPR_DEPTH <=? d)%Z; [split; discriminate|].
  assert (Hr : len r2 < n) by lia.
  pose proof (IH (len r2) Hr f r2 (d + 1)%Z tag false (le_n _) ltac:(lia)) as G.
  apply good_weaken with (n := len r2); [|lia].
  destruct G as [Hnf Hlen].
  destruct (p_expr f r2 (d + 1)%Z tag false) as [[[v u] p] r3| |] eqn:E; [|split; discriminate|congruence].
  specialize (Hlen _ _ eq_refl). pose proof (skip_ws_len r3) as Hs3.
  destruct (skip_ws r3) as [|c3 r4]; [split; discriminate|]. cbn [length] in Hs3.
  destruct (c3 =? 41)%N; [|split; discriminate].
  split; [discriminate|]. intros ev r0 H; inversion H; subst. lia.
Qed.

Lemma unary_step n : P_primary n -> P_unary n.
Proof.
  intros HP fuel s d tag t Hs Hf.
  destruct fuel as [|f]; [lia|]. cbn [p_unary].
  pose proof (skip_ws_len s) as Hw.
  apply good_weaken with (n := len (skip_ws s)); [|exact Hw].
  assert (Hle : len (skip_ws s) <= n) by lia.
  clear Hw. generalize dependent (skip_ws s). clear s Hs. intros s. generalize 1%float.
  induction s as [|c r IHs]; intros sign Hs.
  - pose proof (HP f [] d tag t ltac:(cbn; lia) ltac:(lia)) as [Hnf Hlen].
    destruct (p_primary f [] d tag t) as [[[v u] p] r'| |] eqn:E; [|split; discriminate|congruence].
    split; [discriminate|]. intros ev r0 H; inversion H; subst. apply (Hlen _ _ eq_refl).
  - cbn [length] in Hs.
    destruct (c =? 43)%N.
    { apply good_weaken with (n := len r); [apply IHs; lia|cbn [length]; lia]. }
    destruct (c =? 45)%N.
    { apply good_weaken with (n := len r); [apply IHs; lia|cbn [length]; lia]. }
    pose proof (HP f (c :: r) d tag t ltac:(cbn [length]; lia) ltac:(lia)) as [Hnf Hlen].
    destruct (p_primary f (c :: r) d tag t) as [[[v u] p] r'| |] eqn:E; [|split; discriminate|congruence].
    split; [discriminate|]. intros ev r0 H; inversion H; subst. apply (Hlen _ _ eq_refl).
Qed.

(* the two loops: every iteration consumes its operator character *)
Lemma tloop_step n : (forall m, m < n -> P_unary m) -> (forall m, m < n -> P_tloop m) -> P_tloop n.
Proof.
  intros HU HL fuel acc s d tag t Hs Hf.
  destruct fuel as [|f]; [lia|]. cbn [term_loop]. destruct acc as [[v uu] sp].
  pose proof (skip_ws_len s) as Hw.
  destruct (skip_ws s) as [|c r] eqn:Es.
  { split; [discriminate|]. intros ev r0 H; inversion H; subst. cbn; lia. }
  cbn [length] in Hw.
  destruct ((c =? 42) || (c =? 47))%N%bool.
  2:{ split; [discriminate|]. intros ev r0 H; inversion H; subst. cbn [length]. lia. }
  assert (Hr : len r < n) by lia.
  pose proof (HU (len r) Hr f r d tag t (le_n _) ltac:(lia)) as [Hnf Hlen].
  destruct (p_unary f r d tag t) as [[[rhs uu2] sp2] r'| |] eqn:E; [|split; discriminate|congruence].
  specialize (Hlen _ _ eq_refl).
  assert (Hr' : len r' < n) by lia.
  apply good_weaken with (n := len r'); [|lia].
  apply (HL (len r') Hr'); lia.
Qed.

Lemma eloop_step n : (forall m, m < n -> P_term m) -> (forall m, m < n -> P_eloop m) -> P_eloop n.
Proof.
  intros HT HL fuel acc s d tag t Hs Hf.
  destruct fuel as [|f]; [lia|]. cbn [expr_loop]. destruct acc as [[v uu] sp].
  pose proof (skip_ws_len s) as Hw.
  destruct (skip_ws s) as [|c r] eqn:Es.
  { split; [discriminate|]. intros ev r0 H; inversion H; subst. cbn; lia. }
  cbn [length] in Hw.
  destruct ((c =? 43) || (c =? 45))%N%bool.
  2:{ split; [discriminate|]. intros ev r0 H; inversion H; subst. cbn [length]. lia. }
  assert (Hr : len r < n) by lia.
  pose proof (HT (len r) Hr f r d tag t (le_n _) ltac:(lia)) as [Hnf Hlen].
  destruct (p_term f r d tag t) as [[[rhs uu2] sp2] r'| |] eqn:E; [|split; discriminate|congruence].
  specialize (Hlen _ _ eq_refl).
  assert (Hr' : len r' < n) by lia.
  apply good_weaken with (n := len r'); [|lia].
  apply (HL (len r') Hr'); lia.
Qed.

Lemma term_step n : P_unary n -> (forall m, m <= n -> P_tloop m) -> P_term n.
Proof.
  intros HU HL fuel s d tag t Hs Hf.
  destruct fuel as [|f]; [lia|]. cbn [p_term].
  pose proof (HU f s d tag t Hs ltac:(lia)) as [Hnf Hlen].
  destruct (p_unary f s d tag t) as [ev r| |] eqn:E; [|split; discriminate|congruence].
  specialize (Hlen _ _ eq_refl).
  apply good_weaken with (n := len r); [|lia].
  apply (HL (len r) ltac:(lia)); lia.
Qed.

Lemma expr_step n : P_term n -> (forall m, m <= n -> P_eloop m) -> P_expr n.
Proof.
  intros HT HL fuel s d tag t Hs Hf.
  destruct fuel as [|f]; [lia|]. cbn [p_expr].
  pose proof (HT f s d tag t Hs ltac:(lia)) as [Hnf Hlen].
  destruct (p_term f s d tag t) as [ev r| |] eqn:E; [|split; discriminate|congruence].
  specialize (Hlen _ _ eq_refl).
  apply good_weaken with (n := len r); [|lia].
  apply (HL (len r) ltac:(lia)); lia.
Qed.

Theorem parsers_total n :
  P_primary n /\ P_unary n /\ P_tloop n /\ P_term n /\ P_eloop n /\ P_expr n.
Proof.
  induction n as [n IH] using (well_founded_induction lt_wf).
  assert (HE : forall m, m < n -> P_expr m) by (intros m Hm; apply (IH m Hm)).
  assert (HU' : forall m, m < n -> P_unary m) by (intros m Hm; apply (IH m Hm)).
  assert (HTL' : forall m, m < n -> P_tloop m) by (intros m Hm; apply (IH m Hm)).
  assert (HT' : forall m, m < n -> P_term m) by (intros m Hm; apply (IH m Hm)).
  assert (HEL' : forall m, m < n -> P_eloop m) by (intros m Hm; apply (IH m Hm)).
  assert (HP : P_primary n) by (apply primary_step; exact HE).
  assert (HU : P_unary n) by (apply unary_step; exact HP).
  assert (HTL : P_tloop n) by (apply tloop_step; assumption).
  assert (HTLle : forall m, m <= n -> P_tloop m).
  { intros m Hm. destruct (Nat.eq_dec m n) as [->|Hne]; [exact HTL|apply HTL'; lia]. }
  assert (HT : P_term n) by (apply term_step; assumption).
  assert (HEL : P_eloop n) by (apply eloop_step; assumption).
  assert (HELle : forall m, m <= n -> P_eloop m).
  { intros m Hm. destruct (Nat.eq_dec m n) as [->|Hne]; [exact HEL|apply HEL'; lia]. }
  assert (HEx : P_expr n) by (apply expr_step; assumption).
  exact (conj HP (conj HU (conj HTL (conj HT (conj HEL HEx))))).
Qed.

(* The evaluator never runs out of fuel: 4 * length + 4 suffices (the checker and the correspondence use
   4 * length + 40), for every input and tag. *)
Theorem eval_scalar_total s tag fuel :
  4 * length s + 4 <= fuel -> eval_scalar fuel s tag <> PFuel.
Proof.
  intros Hf. unfold eval_scalar.
  pose proof (skip_ws_len s) as Hw.
  destruct (parsers_total (length s)) as (_ & _ & _ & _ & _ & HE).
  pose proof (HE fuel (skip_ws s) 0%Z tag true Hw Hf) as [Hnf _].
  destruct (p_expr fuel (skip_ws s) 0%Z tag true) as [[[v u] p] r| |]; [|discriminate|congruence].
  destruct (skip_ws r); [|discriminate].
  destruct (negb u); [discriminate|].
  destruct (match tag with RtDegrees => true | _ => false end && p)%bool; discriminate.
Qed.

(* and whatever it accepts, it has read to the end of the text (only white space may follow the expression) *)
Theorem eval_scalar_reads_everything fuel s tag v r :
  eval_scalar fuel s tag = POk v r -> r = [].
Proof.
  unfold eval_scalar.
  destruct (p_expr fuel (skip_ws s) 0%Z tag true) as [[[v0 u] p] r0| |]; [|discriminate|discriminate].
  destruct (skip_ws r0); [|discriminate].
  destruct (negb u); [intros H; inversion H; reflexivity|].
  destruct (match tag with RtDegrees => true | _ => false end && p)%bool; [discriminate|].
  intros H; inversion H; reflexivity.
Qed.
