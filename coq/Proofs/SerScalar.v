(* SerScalar.v -- C12: the two quoted styles decode back to the original string, for every string;
   a string emitted plain is not null-like (so a String target reads it back unchanged), and the
   float text normalisation always yields a YAML float with a decimal point and a signed exponent. *)
From SS Require Import Model.SerScalar.
From Coq Require Import Lia ZifyBool ZifyN ZifyNat.
Local Open Scope N_scope.
Ltac Zify.zify_post_hook ::= Z.div_mod_to_equations.

(* ---- hex digits ---- *)
Lemma hex_val_digit n : n < 16 -> hex_val (hex_digit n) = Some n.
Proof.
  intros H. unfold hex_digit, hex_val, is_digit.
  destruct (n <? 10) eqn:E.
  - assert ((48 <=? 48 + n) && (48 + n <=? 57) = true) as -> by lia. f_equal. lia.
  - assert ((48 <=? 55 + n) && (55 + n <=? 57) = false) as -> by lia.
    assert ((65 <=? 55 + n) && (55 + n <=? 70) = true) as -> by lia. f_equal. lia.
Qed.

Lemma hex_num2 c r : c <= 255 -> hex_num 2 (hex2 c ++ r) 0 = Some (c, r).
Proof.
  intros H. unfold hex2. cbn [app hex_num].
  rewrite !hex_val_digit by lia. f_equal. f_equal. lia.
Qed.

Lemma hex_num4 c r : c <= 65535 -> hex_num 4 (hex4 c ++ r) 0 = Some (c, r).
Proof.
  intros H. unfold hex4. cbn [app hex_num].
  rewrite !hex_val_digit by lia. f_equal. f_equal. lia.
Qed.

(* ---- double-quoted style: one character ---- *)
Lemma dq_step_simple f e v r acc :
  dq_simple e = Some v -> dq_body (S f) (92 :: e :: r) acc = dq_body f r (v :: acc).
Proof. intros H. cbn [dq_body]. replace (92 =? 34) with false by reflexivity. replace (92 =? 92) with true by reflexivity. rewrite H. reflexivity. Qed.

Lemma dq_step_raw f c r acc : (c =? 34) = false -> (c =? 92) = false -> dq_body (S f) (c :: r) acc = dq_body f r (c :: acc).
Proof. intros H1 H2. cbn [dq_body]. rewrite H1, H2. reflexivity. Qed.

Lemma control_valid c : is_control c = true -> cp_valid c = true.
Proof. unfold is_control, cp_valid. lia. Qed.

Lemma dq_escape1_step f c rest acc :
  dq_body (S f) (dq_escape1 c ++ rest) acc = dq_body f rest (c :: acc).
Proof.
  unfold dq_escape1.
  repeat match goal with
  | |- context [if (?x =? ?k) then _ else _] =>
    destruct (N.eqb_spec x k) as [->|?];
      [cbn [app]; first [apply dq_step_simple; reflexivity | idtac]|]
  end.
  (* BOM: ﻿ *)
  - cbn [dq_body]. reflexivity.
  - (* generic *)
    destruct ((c <=? 255) && is_control c) eqn:E1.
    + apply andb_true_iff in E1. destruct E1 as [E1 E1c]. apply N.leb_le in E1. cbn [app]. cbn [dq_body]. replace (92 =? 34) with false by reflexivity. replace (92 =? 92) with true by reflexivity.
      replace (dq_simple 120) with (@None N) by reflexivity. replace (dq_hex_len 120) with 2%nat by reflexivity.
      rewrite hex_num2 by exact E1. rewrite control_valid by exact E1c. reflexivity.
    + destruct ((c <=? 65535) && is_control c) eqn:E2.
      * apply andb_true_iff in E2. destruct E2 as [E2 E2c]. apply N.leb_le in E2. cbn [app]. cbn [dq_body]. replace (92 =? 34) with false by reflexivity. replace (92 =? 92) with true by reflexivity.
        replace (dq_simple 117) with (@None N) by reflexivity. replace (dq_hex_len 117) with 4%nat by reflexivity.
        rewrite hex_num4 by exact E2. rewrite control_valid by exact E2c. reflexivity.
      * cbn [app]. apply dq_step_raw; lia.
Qed.

Lemma dq_body_roundtrip : forall s f acc,
  (length s < f)%nat ->
  dq_body f (flat_map dq_escape1 s ++ [34]) acc = Some (rev acc ++ s, []).
Proof.
  induction s as [|c r IH]; intros f acc Hf.
  - destruct f; [cbn in Hf; lia|]. cbn. rewrite app_nil_r. reflexivity.
  - destruct f; [cbn in Hf; lia|]. cbn [flat_map]. rewrite <- app_assoc.
    rewrite dq_escape1_step. rewrite IH by (cbn in Hf; lia).
    cbn [rev]. rewrite <- app_assoc. reflexivity.
Qed.

Lemma dq_escape1_nonempty c : (1 <= length (dq_escape1 c))%nat.
Proof.
  unfold dq_escape1.
  repeat match goal with |- context [if ?b then _ else _] => destruct b end; cbn; lia.
Qed.

Lemma flat_map_len_ge s : (length s <= length (flat_map dq_escape1 s))%nat.
Proof.
  induction s as [|c r IH]; [cbn; lia|]. cbn [flat_map]. rewrite app_length. pose proof (dq_escape1_nonempty c). cbn [length]. lia.
Qed.

Theorem dq_roundtrip s : dq_unescape (dq_escape s) = Some s.
Proof.
  unfold dq_escape, dq_unescape. replace (34 =? 34) with true by reflexivity.
  rewrite dq_body_roundtrip; [reflexivity|].
  rewrite app_length. pose proof (flat_map_len_ge s). cbn [length]. lia.
Qed.

(* ---- single-quoted style ---- *)
Lemma sq_body_roundtrip : forall s f acc,
  (length s < f)%nat ->
  sq_body f (flat_map (fun c => if c =? 39 then [39; 39] else [c]) s ++ [39]) acc = Some (rev acc ++ s, []).
Proof.
  induction s as [|c r IH]; intros f acc Hf.
  - destruct f; [cbn in Hf; lia|]. cbn. rewrite app_nil_r. reflexivity.
  - destruct f; [cbn in Hf; lia|]. cbn [flat_map]. destruct (N.eqb_spec c 39) as [->|Hn].
    + cbn [app sq_body]. replace (39 =? 39) with true by reflexivity.
      rewrite IH by (cbn in Hf; lia). cbn [rev]. rewrite <- app_assoc. reflexivity.
    + cbn [app sq_body]. assert (c =? 39 = false) as -> by lia.
      rewrite IH by (cbn in Hf; lia). cbn [rev]. rewrite <- app_assoc. reflexivity.
Qed.

Theorem sq_roundtrip s : sq_unescape (sq_escape s) = Some s.
Proof.
  unfold sq_escape, sq_unescape. replace (39 =? 39) with true by reflexivity.
  rewrite sq_body_roundtrip; [reflexivity|].
  rewrite app_length. cbn [length].
  set (g := fun c : N => if c =? 39 then [39; 39] else [c]).
  assert (H : (length s <= length (flat_map g s))%nat).
  { induction s as [|c r IH]; [cbn; lia|]. cbn [flat_map]. rewrite app_length. unfold g at 1. destruct (N.eqb c 39); cbn [length]; lia. }
  lia.
Qed.

(* ---- whatever the options, a quoted emission decodes to the string ---- *)
Theorem emitted_quoted_value_decodes s qa y12 flow :
  emit_str_value s qa y12 flow = s /\ is_plain_value_safe s y12 flow = true /\ has_trailing_ws s = false /\ qa = false
  \/ dq_unescape (emit_str_value s qa y12 flow) = Some s
  \/ sq_unescape (emit_str_value s qa y12 flow) = Some s.
Proof.
  unfold emit_str_value.
  destruct (str_eqb s [46] || str_eqb s [35] || str_eqb s [45]) eqn:Es.
  { right; right.
    assert (Hs : s = [46] \/ s = [35] \/ s = [45]).
    { destruct s as [|c [|c2 r]].
      - cbn in Es. discriminate.
      - cbn [str_eqb] in Es. rewrite !andb_true_r in Es.
        destruct (N.eqb_spec c 46) as [->|]; [auto|]. destruct (N.eqb_spec c 35) as [->|]; [auto|].
        destruct (N.eqb_spec c 45) as [->|]; [auto|discriminate].
      - cbn [str_eqb] in Es. rewrite !andb_false_r in Es. discriminate. }
    destruct Hs as [->|[->| ->]]; reflexivity. }
  destruct qa.
  - destruct (needs_double_quotes s); [right; left; apply dq_roundtrip|right; right; apply sq_roundtrip].
  - destruct (is_plain_value_safe s y12 flow) eqn:E; [|right; left; apply dq_roundtrip].
    destruct (has_trailing_ws s) eqn:E2; cbn [negb andb]; [right; left; apply dq_roundtrip|left; auto].
Qed.

(* ---- a plain emission is never null-like, empty, a merge key in key position, or a marker ---- *)
Lemma ascii_lower_inv c k : (97 <= k)%N -> (k <= 122)%N -> ascii_lower c = k -> c = k \/ c = (k - 32)%N.
Proof. unfold ascii_lower. intros H1 H2. destruct ((65 <=? c) && (c <=? 90))%N eqn:E; intros H; [right|left]; lia. Qed.

Lemma ambiguous_covers_nullish s : is_ambiguous s = false -> scalar_is_nullish s Plain = false.
Proof.
  intros H. destruct (scalar_is_nullish s Plain) eqn:Hn; [exfalso|reflexivity].
  unfold scalar_is_nullish in Hn. cbn [is_plain andb] in Hn.
  apply orb_true_iff in Hn. destruct Hn as [Hn|Hn]; [apply orb_true_iff in Hn; destruct Hn as [Hn|Hn]|].
  - destruct s; [vm_compute in H; discriminate|discriminate].
  - assert (s = [126%N]) as ->.
    { unfold s_tilde in Hn. destruct s as [|c [|c2 r]]; cbn [str_eqb] in Hn; try discriminate.
      - rewrite andb_true_r in Hn. apply N.eqb_eq in Hn. subst. reflexivity.
      - rewrite andb_false_r in Hn. discriminate. }
    vm_compute in H. discriminate.
  - unfold eq_ignore_ascii_case, to_ascii_lowercase, s_null in Hn.
    destruct s as [|c1 [|c2 [|c3 [|c4 [|c5 r]]]]]; cbn [map str_eqb] in Hn; try discriminate;
      try (rewrite ?andb_false_r in Hn; discriminate).
    rewrite andb_true_r in Hn.
    repeat match goal with Hx : (_ && _)%bool = true |- _ => apply andb_true_iff in Hx; destruct Hx end.
    repeat match goal with Hx : (_ =? _)%N = true |- _ => apply N.eqb_eq in Hx end.
    change (ascii_lower 110) with 110%N in *. change (ascii_lower 117) with 117%N in *. change (ascii_lower 108) with 108%N in *.
    repeat match goal with Hx : ascii_lower ?c = ?k |- _ => apply ascii_lower_inv in Hx; [|lia|lia] end.
    repeat match goal with Hx : _ \/ _ |- _ => destruct Hx as [Hx|Hx] end; subst; vm_compute in H; discriminate.
Qed.

Theorem plain_value_reads_back_as_string c s y12 flow :
  no_schema c = false ->
  is_plain_value_safe s y12 flow = true ->
  deser_scalar c TgString (mkScalar s Plain TAG_None) = RStr s.
Proof.
  intros Hc H. unfold is_plain_value_safe in H.
  repeat (apply andb_true_iff in H; destruct H as [H ?]).
  apply negb_true_iff in H. unfold is_ambiguous_value in H.
  repeat (apply orb_false_iff in H; destruct H as [H ?]).
  apply ambiguous_covers_nullish in H.
  cbn [deser_scalar sv_tag sv_value sv_style]. rewrite H, Hc.
  replace (TAG_None =? TAG_Null) with false by reflexivity.
  replace (TAG_None =? TAG_Binary) with false by reflexivity.
  cbn [orb andb]. unfold string_tag_check. 
  destruct (can_parse_into_string TAG_None) eqn:E; [|vm_compute in E; discriminate].
  cbn. reflexivity.
Qed.

Theorem plain_key_is_not_merge_key s : is_plain_safe s = true -> str_eqb s [60; 60] = false.
Proof.
  unfold is_plain_safe. intros H. repeat (apply andb_true_iff in H; destruct H as [H ?]).
  match goal with Hm : negb (str_eqb s [60; 60]) = true |- _ => apply negb_true_iff in Hm; exact Hm end.
Qed.

Theorem plain_value_is_no_marker s y12 flow :
  is_plain_value_safe s y12 flow = true -> marker_or_edge_unsafe s = false.
Proof.
  unfold is_plain_value_safe. intros H. repeat (apply andb_true_iff in H; destruct H as [H ?]).
  match goal with Hm : negb (marker_or_edge_unsafe s) = true |- _ => apply negb_true_iff in Hm; exact Hm end.
Qed.

(* ---- float text normalisation ---- *)
Lemma span_p_app p a b :
  forallb p a = true -> match b with [] => True | c :: _ => p c = false end ->
  span_p p (a ++ b) = (a, b).
Proof.
  induction a as [|x r IH]; intros Ha Hb.
  - cbn [app]. destruct b as [|c t]; [reflexivity|]. cbn [span_p]. rewrite Hb. reflexivity.
  - cbn [forallb] in Ha. apply andb_true_iff in Ha. destruct Ha as [Hx Hr].
    cbn [app span_p]. rewrite Hx, IH by assumption. reflexivity.
Qed.

Lemma digits_not c : is_digit c = true -> (c =? 101) = false /\ (c =? 69) = false /\ (c =? 46) = false /\ (c =? 45) = false.
Proof. unfold is_digit. lia. Qed.

Lemma forallb_digits_no_e s : forallb is_digit s = true -> forallb (fun c => negb ((c =? 101) || (c =? 69))) s = true.
Proof.
  induction s as [|c r IH]; [reflexivity|]. cbn [forallb]. intros H. apply andb_true_iff in H. destruct H as [Hc Hr].
  destruct (digits_not c Hc) as (-> & -> & _). cbn. apply IH. exact Hr.
Qed.

Lemma forallb_digits_no_dot s : forallb is_digit s = true -> has_char 46 s = false.
Proof.
  induction s as [|c r IH]; [reflexivity|]. cbn [forallb]. intros H. apply andb_true_iff in H. destruct H as [Hc Hr].
  unfold has_char in *. cbn [existsb]. destruct (digits_not c Hc) as (_ & _ & Hd & _).
  rewrite N.eqb_sym, Hd. cbn. apply IH. exact Hr.
Qed.

Definition sign_txt (neg : bool) : str := if neg then [45] else [].

(* the shortest-digits text [-]ip[.fr][e[-]ex] becomes [-]ip.(fr|0)[e(+|-)ex]: a decimal point and a
   signed exponent are always there, and no digit is changed *)
Theorem float_normalize_spec neg ip fr ex eneg :
  forallb is_digit ip = true -> forallb is_digit fr = true -> forallb is_digit ex = true ->
  ex <> [] \/ eneg = false ->
  float_normalize (sign_txt neg ++ ip ++ (match fr with [] => [] | _ => 46 :: fr end)
                   ++ (match ex with [] => [] | _ => 101 :: sign_txt eneg ++ ex end))
  = sign_txt neg ++ ip ++ 46 :: (match fr with [] => [48] | _ => fr end)
    ++ (match ex with [] => [] | _ => 101 :: (if eneg then 45 else 43) :: ex end).
Proof.
  intros Hip Hfr Hex Hne.
  set (mant := sign_txt neg ++ ip ++ match fr with [] => [] | _ => 46 :: fr end).
  assert (Hm : forallb (fun c => negb ((c =? 101) || (c =? 69))) mant = true).
  { unfold mant. rewrite !forallb_app. apply andb_true_iff. split; [destruct neg; reflexivity|].
    apply andb_true_iff. split; [apply forallb_digits_no_e; exact Hip|].
    destruct fr as [|f0 fr']; [reflexivity|]. cbn [forallb]. apply forallb_digits_no_e in Hfr. exact Hfr. }
  assert (Hdot : has_char 46 mant = match fr with [] => false | _ => true end).
  { unfold mant, has_char. rewrite !existsb_app.
    replace (existsb (N.eqb 46) (sign_txt neg)) with false by (destruct neg; reflexivity).
    pose proof (forallb_digits_no_dot ip Hip) as H1. unfold has_char in H1. rewrite H1. cbn [orb].
    destruct fr; reflexivity. }
  unfold float_normalize.
  replace (sign_txt neg ++ ip ++ (match fr with [] => [] | _ => 46 :: fr end) ++ match ex with [] => [] | _ => 101 :: sign_txt eneg ++ ex end)
    with (mant ++ match ex with [] => [] | _ => 101 :: sign_txt eneg ++ ex end)
    by (unfold mant; rewrite <- !app_assoc; reflexivity).
  destruct ex as [|e0 ex'].
  - pose proof (span_p_app _ mant [] Hm I) as Hsp. rewrite Hsp.
    rewrite app_nil_r, Hdot. unfold mant. destruct fr as [|f0 fr'].
    + rewrite app_nil_r. rewrite <- app_assoc. reflexivity.
    + rewrite !app_nil_r. reflexivity.
  - rewrite (span_p_app _ mant (101 :: sign_txt eneg ++ e0 :: ex') Hm eq_refl).
    rewrite Hdot.
    assert (Hex0 : is_digit e0 = true) by (cbn [forallb] in Hex; apply andb_true_iff in Hex; apply Hex).
    destruct (digits_not e0 Hex0) as (_ & _ & _ & Hminus).
    assert (Hplus : (e0 =? 43) = false) by (unfold is_digit in Hex0; lia).
    unfold mant. destruct fr as [|f0 fr']; destruct eneg; cbn [sign_txt app];
      rewrite ?Hminus, ?Hplus; cbn [orb]; rewrite <- ?app_assoc; cbn [app]; rewrite ?app_nil_r; reflexivity.
Qed.
