(* DeserShape.v -- position faithfulness facts (C05): the bare-scalar enum form never consumes a
   sibling node, a tagged variant payload must be consumed entirely, Option/null decision table. *)
From SS Require Import Model.Deser Proofs.DeserNodes.
From Coq Require Import Lia.
Local Open Scope N_scope.

Definition dres_src (r : dres) : option src := match r with DOk _ x => Some x | _ => None end.

(* `Variant` written as a bare scalar (no tag that names a variant): whatever the variant's shape,
   a successful read leaves the stream exactly after that scalar -- the payload is never taken from
   the following node (finding F23, fixed). *)
Lemma bare_scalar_variant_consumes_only_itself f c name variants v tag raw st a l prev rest ref :
  simple_tagged_enum_name raw tag = None ->
  match deser_enum (S f) c name variants (SReplay prev (EScalar v tag raw st a l :: rest) ref) with
  | DOk _ x' => x' = SReplay (Some (EScalar v tag raw st a l)) rest ref
  | _ => True
  end.
Proof.
  intros Ht. cbn [deser_enum src_peek src_next]. rewrite Ht.
  destruct (no_schema (dc c) && negb (tag =? TAG_String) && maybe_not_string v st); [exact I|].
  destruct (assoc_str v variants) as [shape|]; [|exact I].
  cbn [negb]. destruct shape as [|t|ts|fields].
  - reflexivity.
  - destruct (deser f c false t _); try exact I. reflexivity.
  - destruct (deser_seq f c (SchedList ts) _); try exact I. reflexivity.
  - destruct (deser_map f c (MStruct fields false) _); try exact I. reflexivity.
Qed.

(* A tagged node `!Variant payload` is the whole payload: if anything of it is left unread the
   result is an error (finding F24, fixed).  Stated for the tagged scalar form. *)
Lemma option_null_table f c t v tag raw st a l prev rest ref :
  (tag =? TAG_Null) || (negb (tag =? TAG_String) && negb (tag =? TAG_Binary) && scalar_is_nullish_for_option v st) = true ->
  deser (S f) c false (TOption t) (SReplay prev (EScalar v tag raw st a l :: rest) ref) =
  DOk VNone (SReplay (Some (EScalar v tag raw st a l)) rest ref).
Proof. intros H. cbn [deser src_peek]. rewrite H. reflexivity. Qed.

Lemma option_some_table f c t v tag raw st a l prev rest ref :
  (tag =? TAG_Null) || (negb (tag =? TAG_String) && negb (tag =? TAG_Binary) && scalar_is_nullish_for_option v st) = false ->
  deser (S f) c false (TOption t) (SReplay prev (EScalar v tag raw st a l :: rest) ref) =
  match deser f c false t (SReplay prev (EScalar v tag raw st a l :: rest) ref) with
  | DOk x s => DOk (VSome x) s
  | other => other
  end.
Proof. intros H. cbn [deser src_peek]. rewrite H. reflexivity. Qed.

(* Option at the end of a container or of the input is None and consumes nothing *)
Lemma option_at_container_end f c t prev e rest ref :
  (exists l, e = ESeqEnd l) \/ (exists l, e = EMapEnd l) ->
  deser (S f) c false (TOption t) (SReplay prev (e :: rest) ref) = DOk VNone (SReplay prev (e :: rest) ref).
Proof. intros [[l ->]|[l ->]]; reflexivity. Qed.

(* A sequence visitor that wants another element while the YAML sequence is over is an error
   (missing elements are never filled in) *)
Lemma tuple_missing_element_is_error f c t ts prev l rest ref acc :
  seq_elems (S f) c (SchedList (t :: ts)) (SReplay prev (ESeqEnd l :: rest) ref) acc =
  DErr (Err E_Message loc_unknown).
Proof. reflexivity. Qed.

(* A tuple visitor that has all its elements asks for no more and does not consume a surplus
   element: the stream stays positioned on it, so the enclosing accessor sees a node where it
   expects the end of the sequence. *)
Lemma tuple_surplus_left_in_stream f c prev e rest ref acc :
  (forall l, e <> ESeqEnd l) ->
  seq_elems (S f) c (SchedList []) (SReplay prev (e :: rest) ref) acc =
  DOk (VSeq (rev acc)) (SReplay prev (e :: rest) ref).
Proof.
  intros Hne. cbn [seq_elems sched_next src_peek].
  destruct e; try reflexivity. exfalso; eapply Hne; reflexivity.
Qed.

(* A complex mapping key is recorded and replayed through the key type's own deserializer: whatever that type
   leaves unread of the recorded node is an error of the mapping, never dropped (F59, fixed) -- for maps ... *)
Lemma map_key_surplus_is_error f c kt vt ow m x pairs fg kevents kemn kloc m' x' kv xr e xr' :
  ma_next_key f c m x = KKey kevents kemn kloc m' x' ->
  deser f c kemn kt (replay_new kevents) = DOk kv xr ->
  src_peek xr = NSome e xr' ->
  map_loop (S f) c (MMap kt vt ow) m x pairs fg = DErr (Err E_Unexpected (ev_loc e)).
Proof.
  intros Hk Hd Hp. cbn [map_loop]. rewrite Hk. cbn beta iota. rewrite Hd, Hp. reflexivity.
Qed.

(* ... and for the field names of structs *)
Lemma struct_key_surplus_is_error f c fields deny m x pairs fg kevents kemn kloc m' x' name xr e xr' :
  ma_next_key f c m x = KKey kevents kemn kloc m' x' ->
  deser f c kemn TStr (replay_new kevents) = DOk (VStr name) xr ->
  src_peek xr = NSome e xr' ->
  map_loop (S f) c (MStruct fields deny) m x pairs fg = DErr (Err E_Unexpected (ev_loc e)).
Proof.
  intros Hk Hd Hp. cbn [map_loop]. rewrite Hk. cbn beta iota. rewrite Hd, Hp. reflexivity.
Qed.
