(* DeserNodes.v -- event trees, fingerprints, and exactness of capture_node / skip_one_node on
   replay sources (C04): a captured key or skipped value is exactly one node of any size. *)
From SS Require Import Model.Deser.
From Coq Require Import Lia ZifyBool ZifyN ZifyNat.
Local Open Scope N_scope.

(* a delivered (alias-free) node as a tree of events *)
Inductive enode :=
| NdScalar (v : str) (tag : N) (raw : option str) (st : style) (anchor : N) (l : loc)
| NdSeq (anchor tag : N) (raw : option str) (l : loc) (items : list enode) (endl : loc)
| NdMap (anchor : N) (l : loc) (entries : list (enode * enode)) (endl : loc).

Fixpoint events_of (n : enode) : list ev :=
  match n with
  | NdScalar v tag raw st a l => [EScalar v tag raw st a l]
  | NdSeq a tag raw l items endl =>
    ESeqStart a tag raw l :: flat_map events_of items ++ [ESeqEnd endl]
  | NdMap a l entries endl =>
    EMapStart a l ::
    (fix go (es : list (enode * enode)) : list ev :=
       match es with [] => [] | (k, v) :: r => events_of k ++ events_of v ++ go r end) entries
    ++ [EMapEnd endl]
  end.

Fixpoint entries_events (es : list (enode * enode)) : list ev :=
  match es with [] => [] | (k, v) :: r => events_of k ++ events_of v ++ entries_events r end.

Lemma events_of_map a l entries endl :
  events_of (NdMap a l entries endl) = EMapStart a l :: entries_events entries ++ [EMapEnd endl].
Proof. reflexivity. Qed.

(* structural key identity: kind, scalar text, tag class, children; style, anchors, raw tag text
   and locations do not matter *)
Fixpoint fp_of (n : enode) : fp :=
  match n with
  | NdScalar v tag _ _ _ _ => FScalar v tag
  | NdSeq _ _ _ _ items _ => FSeq (map fp_of items)
  | NdMap _ _ entries _ =>
    FMap ((fix go (es : list (enode * enode)) : list (fp * fp) :=
             match es with [] => [] | (k, v) :: r => (fp_of k, fp_of v) :: go r end) entries)
  end.
Fixpoint entries_fp (es : list (enode * enode)) : list (fp * fp) :=
  match es with [] => [] | (k, v) :: r => (fp_of k, fp_of v) :: entries_fp r end.
Lemma fp_of_map a l entries endl : fp_of (NdMap a l entries endl) = FMap (entries_fp entries).
Proof. reflexivity. Qed.

Definition loc_of (n : enode) : loc :=
  match n with NdScalar _ _ _ _ _ l | NdSeq _ _ _ l _ _ | NdMap _ l _ _ => l end.

Fixpoint nsize (n : enode) : nat :=
  match n with
  | NdScalar _ _ _ _ _ _ => 1
  | NdSeq _ _ _ _ items _ => S (fold_right (fun i acc => nsize i + acc)%nat 0%nat items)
  | NdMap _ _ entries _ =>
    S ((fix go (es : list (enode * enode)) : nat :=
          match es with [] => 0 | (k, v) :: r => nsize k + nsize v + go r end)%nat entries)
  end.
Fixpoint entries_size (es : list (enode * enode)) : nat :=
  match es with [] => 0 | (k, v) :: r => nsize k + nsize v + entries_size r end%nat.
Definition items_size (items : list enode) : nat := fold_right (fun i acc => nsize i + acc)%nat 0%nat items.
Lemma nsize_map a l entries endl : nsize (NdMap a l entries endl) = S (entries_size entries).
Proof. reflexivity. Qed.
Lemma nsize_pos n : (1 <= nsize n)%nat. Proof. destruct n; cbn; lia. Qed.

(* ---- fp_eqb decides equality of fingerprints ---- *)
Lemma str_eqb_eq : forall a b, str_eqb a b = true <-> a = b.
Proof.
  induction a as [|x a IH]; destruct b as [|y b]; cbn; split; intros H; try discriminate; try reflexivity.
  - apply Bool.andb_true_iff in H. destruct H as [H1 H2]. apply N.eqb_eq in H1. apply IH in H2. congruence.
  - inversion H; subst. rewrite N.eqb_refl. cbn. apply IH. reflexivity.
Qed.

Fixpoint fp_size (f : fp) : nat :=
  match f with
  | FScalar _ _ => 1
  | FSeq l => S (fold_right (fun i acc => fp_size i + acc)%nat 0%nat l)
  | FMap l => S (fold_right (fun kv acc => fp_size (fst kv) + fp_size (snd kv) + acc)%nat 0%nat l)
  end.

Lemma fp_eqb_eq_sized : forall k a b, (fp_size a <= k)%nat -> (fp_eqb a b = true <-> a = b).
Proof.
  induction k as [|k IH]; intros a b Hk.
  - destruct a; cbn in Hk; lia.
  - destruct a as [v t|l|l]; destruct b as [v' t'|l'|l']; cbn [fp_eqb]; try (split; intros H; discriminate).
    + rewrite Bool.andb_true_iff, str_eqb_eq, N.eqb_eq. split; [intros [-> ->]; reflexivity|intros H; inversion H; auto].
    + cbn in Hk. assert (Hl : (fold_right (fun i acc => fp_size i + acc) 0 l <= k)%nat) by lia. clear Hk.
      revert l' Hl. induction l as [|p l IHl]; intros [|q l'] Hl; cbn in *; try (split; intros H; (discriminate || reflexivity)).
      rewrite Bool.andb_true_iff. rewrite (IH p q) by lia.
      specialize (IHl l' ltac:(lia)). split.
      * intros [-> H2]. apply IHl in H2. inversion H2; subst. reflexivity.
      * intros H. inversion H; subst. split; [reflexivity|]. apply IHl. reflexivity.
    + cbn in Hk. assert (Hl : (fold_right (fun kv acc => fp_size (fst kv) + fp_size (snd kv) + acc) 0 l <= k)%nat) by lia. clear Hk.
      revert l' Hl. induction l as [|[pk pv] l IHl]; intros [|[qk qv] l'] Hl; cbn in *; try (split; intros H; (discriminate || reflexivity)).
      rewrite !Bool.andb_true_iff. rewrite (IH pk qk) by lia. rewrite (IH pv qv) by lia.
      specialize (IHl l' ltac:(lia)). split.
      * intros [[-> ->] H2]. apply IHl in H2. inversion H2; subst. reflexivity.
      * intros H. inversion H; subst. repeat split. apply IHl. reflexivity.
Qed.

Lemma fp_eqb_eq a b : fp_eqb a b = true <-> a = b.
Proof. apply (fp_eqb_eq_sized (fp_size a)). lia. Qed.

Lemma fp_mem_In f l : fp_mem f l = true <-> In f l.
Proof.
  unfold fp_mem. rewrite existsb_exists. split.
  - intros (x & Hin & He). apply fp_eqb_eq in He. subst. exact Hin.
  - intros Hin. exists f. split; [exact Hin|]. apply fp_eqb_eq. reflexivity.
Qed.

(* ---- replay sources ---- *)
Definition last_ev (evs : list ev) (d : option ev) : option ev :=
  match rev evs with e :: _ => Some e | [] => d end.

Lemma last_ev_app a b d : b <> [] -> last_ev (a ++ b) d = last_ev b d.
Proof.
  intros Hb. unfold last_ev. rewrite rev_app_distr.
  destruct (rev b) as [|e r] eqn:E; [|reflexivity].
  apply (f_equal (@rev ev)) in E. rewrite rev_involutive in E. cbn in E. congruence.
Qed.

Lemma last_ev_app_gen a b d : last_ev (a ++ b) d = last_ev b (last_ev a d).
Proof.
  unfold last_ev. rewrite rev_app_distr. destruct (rev b) as [|e r] eqn:E; [|reflexivity].
  cbn [app]. reflexivity.
Qed.

Lemma events_of_nonempty n : events_of n <> [].
Proof. destruct n; cbn; discriminate. Qed.

(* capture_node on a replay buffer that starts with the events of one node returns exactly that
   node: its events, its fingerprint, its start location, and the buffer positioned right after
   it -- for nodes of any size. *)
Definition captured (n : enode) (prev : option ev) (rest : list ev) (ref : option loc) : cres :=
  COk (mkKN (fp_of n) (events_of n) (loc_of n)) (SReplay (last_ev (events_of n) prev) rest ref).

Lemma capture_items_step f i prev more ref pe pf l :
  capture_items (S f) (SReplay prev (events_of i ++ more) ref) pe pf l =
  match capture_node f (SReplay prev (events_of i ++ more) ref) with
  | COk k x'' => capture_items f x'' (pe ++ kn_events k) (kn_fp k :: pf) l
  | other => other
  end.
Proof. destruct i; reflexivity. Qed.

Lemma capture_entries_step f ek prev more ref pe pf l :
  capture_entries (S f) (SReplay prev (events_of ek ++ more) ref) pe pf l =
  match capture_node f (SReplay prev (events_of ek ++ more) ref) with
  | COk k x'' =>
    match capture_node f x'' with
    | COk v x3 => capture_entries f x3 (pe ++ kn_events k ++ kn_events v) ((kn_fp k, kn_fp v) :: pf) l
    | other => other
    end
  | other => other
  end.
Proof. destruct ek; reflexivity. Qed.

Lemma capture_exact_sized : forall k n, (nsize n <= k)%nat ->
  forall fuel prev rest ref, (2 * nsize n <= fuel)%nat ->
  capture_node fuel (SReplay prev (events_of n ++ rest) ref) = captured n prev rest ref.
Proof.
  induction k as [|k IH]; intros n Hk fuel prev rest ref Hf.
  { pose proof (nsize_pos n). lia. }
  destruct fuel as [|f]; [pose proof (nsize_pos n); lia|].
  destruct n as [v tag raw st a l|a tag raw l items endl|a l entries endl].
  - reflexivity.
  - (* sequence *)
    cbn [events_of app capture_node src_next]. unfold captured. cbn [events_of fp_of loc_of].
    cbn [nsize] in Hk, Hf. fold (items_size items) in Hk, Hf.
    assert (Hloop : forall its pre_evs pre_fps prev0 f',
      (items_size its <= k)%nat -> (2 * items_size its + 1 <= f')%nat -> (f' <= f)%nat ->
      capture_items f' (SReplay prev0 (flat_map events_of its ++ [ESeqEnd endl] ++ rest) ref) pre_evs pre_fps l =
      COk (mkKN (FSeq (rev pre_fps ++ map fp_of its)) (pre_evs ++ flat_map events_of its ++ [ESeqEnd endl]) l)
          (SReplay (Some (ESeqEnd endl)) rest ref)).
    { clear Hk. intros its. induction its as [|i its IHi]; intros pre_evs pre_fps prev0 f' Hs Hf' Hle.
      - destruct f' as [|f'']; [cbn in Hf'; lia|]. cbn. rewrite app_nil_r. reflexivity.
      - destruct f' as [|f'']; [cbn in Hf'; lia|].
        cbn [flat_map items_size fold_right] in *. fold (items_size its) in *.
        pose proof (nsize_pos i) as Hi.
        rewrite <- !app_assoc. rewrite capture_items_step.
        rewrite (IH i ltac:(lia) f'' prev0 _ ref ltac:(lia)).
        unfold captured. cbn [kn_events kn_fp].
        rewrite (IHi _ _ _ f'' ltac:(lia) ltac:(lia) ltac:(lia)).
        cbn [rev map]. rewrite <- !app_assoc. reflexivity. }
    rewrite <- app_assoc.
    rewrite (Hloop items [ESeqStart a tag raw l] [] _ f ltac:(lia) ltac:(lia) ltac:(lia)).
    cbn [rev app]. f_equal. f_equal.
    change (ESeqStart a tag raw l :: flat_map events_of items ++ [ESeqEnd endl])
      with ((ESeqStart a tag raw l :: flat_map events_of items) ++ [ESeqEnd endl]).
    unfold last_ev. rewrite rev_app_distr. reflexivity.
  - (* mapping *)
    rewrite events_of_map. rewrite nsize_map in Hk, Hf.
    cbn [app capture_node src_next]. unfold captured. rewrite events_of_map, fp_of_map. cbn [loc_of].
    assert (Hloop : forall ents pre_evs pre_fps prev0 f',
      (entries_size ents <= k)%nat -> (2 * entries_size ents + 1 <= f')%nat -> (f' <= f)%nat ->
      capture_entries f' (SReplay prev0 (entries_events ents ++ [EMapEnd endl] ++ rest) ref) pre_evs pre_fps l =
      COk (mkKN (FMap (rev pre_fps ++ entries_fp ents)) (pre_evs ++ entries_events ents ++ [EMapEnd endl]) l)
          (SReplay (Some (EMapEnd endl)) rest ref)).
    { clear Hk. intros ents. induction ents as [|[ek ev0] ents IHe]; intros pre_evs pre_fps prev0 f' Hs Hf' Hle.
      - destruct f' as [|f'']; [cbn in Hf'; lia|]. cbn. rewrite app_nil_r. reflexivity.
      - destruct f' as [|f'']; [cbn in Hf'; lia|].
        cbn [entries_events entries_size entries_fp] in *.
        pose proof (nsize_pos ek). pose proof (nsize_pos ev0).
        rewrite <- !app_assoc. rewrite capture_entries_step.
        rewrite (IH ek ltac:(lia) f'' prev0 _ ref ltac:(lia)).
        unfold captured. cbn [kn_events kn_fp].
        rewrite (IH ev0 ltac:(lia) f'' _ _ ref ltac:(lia)).
        unfold captured. cbn [kn_events kn_fp].
        rewrite (IHe _ _ _ f'' ltac:(lia) ltac:(lia) ltac:(lia)).
        cbn [rev map]. rewrite <- !app_assoc. reflexivity. }
    rewrite <- app_assoc.
    rewrite (Hloop entries [EMapStart a l] [] _ f ltac:(lia) ltac:(lia) ltac:(lia)).
    cbn [rev app]. f_equal. f_equal.
    change (EMapStart a l :: entries_events entries ++ [EMapEnd endl])
      with ((EMapStart a l :: entries_events entries) ++ [EMapEnd endl]).
    unfold last_ev. rewrite rev_app_distr. reflexivity.
Qed.

Theorem capture_exact n fuel prev rest ref : (2 * nsize n <= fuel)%nat ->
  capture_node fuel (SReplay prev (events_of n ++ rest) ref) = captured n prev rest ref.
Proof. intros Hf. apply (capture_exact_sized (nsize n) n (le_n _)). exact Hf. Qed.

(* ---- skip_one_node skips exactly one node ---- *)
Lemma skip_depth_scalar g prev v tag raw st a l more ref d : 1 <= d ->
  skip_depth (S g) (SReplay prev (EScalar v tag raw st a l :: more) ref) d =
  skip_depth g (SReplay (Some (EScalar v tag raw st a l)) more ref) d.
Proof. intros Hd. cbn [skip_depth]. destruct (N.eqb_spec d 0); [lia|]. reflexivity. Qed.

Lemma skip_depth_node_sized : forall k n, (nsize n <= k)%nat ->
  forall g prev more ref d, 1 <= d -> (length (events_of n) <= g)%nat ->
  skip_depth g (SReplay prev (events_of n ++ more) ref) d =
  skip_depth (g - length (events_of n)) (SReplay (last_ev (events_of n) prev) more ref) d.
Proof.
  induction k as [|k IH]; intros n Hk g prev more ref d Hd Hg.
  { pose proof (nsize_pos n). lia. }
  destruct n as [v tag raw st a l|a tag raw l items endl|a l entries endl].
  - cbn [events_of length app] in *. destruct g as [|g]; [lia|].
    rewrite skip_depth_scalar by exact Hd. replace (S g - 1)%nat with g by lia. reflexivity.
  - (* sequence *)
    cbn [nsize] in Hk. fold (items_size items) in Hk.
    cbn [events_of] in *. cbn [length app] in Hg.
    destruct g as [|g]; [lia|].
    cbn [app skip_depth src_next]. destruct (N.eqb_spec d 0); [lia|].
    assert (Hitems : forall its g0 prev0 tail d0, (items_size its <= k)%nat -> 1 <= d0 ->
      (length (flat_map events_of its) <= g0)%nat ->
      skip_depth g0 (SReplay prev0 (flat_map events_of its ++ tail) ref) d0 =
      skip_depth (g0 - length (flat_map events_of its))
                 (SReplay (last_ev (flat_map events_of its) prev0) tail ref) d0).
    { intros its. induction its as [|i its IHi]; intros g0 prev0 tail d0 Hs Hd0 Hg0.
      - cbn. replace (g0 - 0)%nat with g0 by lia. reflexivity.
      - cbn [flat_map items_size fold_right] in *. fold (items_size its) in *.
        rewrite app_length in Hg0. rewrite <- app_assoc.
        pose proof (nsize_pos i).
        rewrite (IH i ltac:(lia) g0 prev0 _ ref d0 Hd0 ltac:(lia)).
        rewrite (IHi (g0 - length (events_of i))%nat _ _ d0 ltac:(lia) Hd0 ltac:(lia)).
        rewrite app_length. f_equal; [lia|].
        f_equal. rewrite last_ev_app_gen. reflexivity. }
    rewrite app_length in Hg. cbn [length] in Hg.
    rewrite <- app_assoc. rewrite (Hitems items g _ _ (d + 1) ltac:(lia) ltac:(lia) ltac:(lia)).
    cbn [app].
    destruct (g - length (flat_map events_of items))%nat as [|g1] eqn:Eg; [lia|].
    cbn [skip_depth src_next]. destruct (N.eqb_spec (d + 1) 0); [lia|].
    replace (d + 1 - 1) with d by lia.
    f_equal.
    + cbn [length]. rewrite app_length. cbn [length]. lia.
    + f_equal.
      change (ESeqStart a tag raw l :: flat_map events_of items ++ [ESeqEnd endl])
        with ((ESeqStart a tag raw l :: flat_map events_of items) ++ [ESeqEnd endl]).
      unfold last_ev. rewrite rev_app_distr. reflexivity.
  - (* mapping *)
    rewrite nsize_map in Hk. rewrite events_of_map in *. cbn [length app] in Hg.
    destruct g as [|g]; [lia|].
    cbn [app skip_depth src_next]. destruct (N.eqb_spec d 0); [lia|].
    assert (Hents : forall ents g0 prev0 tail d0, (entries_size ents <= k)%nat -> 1 <= d0 ->
      (length (entries_events ents) <= g0)%nat ->
      skip_depth g0 (SReplay prev0 (entries_events ents ++ tail) ref) d0 =
      skip_depth (g0 - length (entries_events ents))
                 (SReplay (last_ev (entries_events ents) prev0) tail ref) d0).
    { intros ents. induction ents as [|[ek ev0] ents IHe]; intros g0 prev0 tail d0 Hs Hd0 Hg0.
      - cbn. replace (g0 - 0)%nat with g0 by lia. reflexivity.
      - cbn [entries_events entries_size] in *.
        rewrite !app_length in Hg0. rewrite <- !app_assoc.
        pose proof (nsize_pos ek). pose proof (nsize_pos ev0).
        rewrite (IH ek ltac:(lia) g0 prev0 _ ref d0 Hd0 ltac:(lia)).
        rewrite (IH ev0 ltac:(lia) (g0 - length (events_of ek))%nat _ _ ref d0 Hd0 ltac:(lia)).
        rewrite (IHe (g0 - length (events_of ek) - length (events_of ev0))%nat _ _ d0 ltac:(lia) Hd0 ltac:(lia)).
        rewrite !app_length. f_equal; [lia|].
        f_equal. rewrite !last_ev_app_gen. reflexivity. }
    rewrite app_length in Hg. cbn [length] in Hg.
    rewrite <- app_assoc. rewrite (Hents entries g _ _ (d + 1) ltac:(lia) ltac:(lia) ltac:(lia)).
    cbn [app].
    destruct (g - length (entries_events entries))%nat as [|g1] eqn:Eg; [lia|].
    cbn [skip_depth src_next]. destruct (N.eqb_spec (d + 1) 0); [lia|].
    replace (d + 1 - 1) with d by lia.
    f_equal.
    + cbn [length]. rewrite app_length. cbn [length]. lia.
    + f_equal.
      change (EMapStart a l :: entries_events entries ++ [EMapEnd endl])
        with ((EMapStart a l :: entries_events entries) ++ [EMapEnd endl]).
      unfold last_ev. rewrite rev_app_distr. reflexivity.
Qed.

(* skipping the value of a later duplicate (FirstWins) removes exactly that value, whatever its
   size, and leaves the source positioned on the next entry *)
Theorem skip_exact n g prev rest ref : (length (events_of n) + 1 <= g)%nat ->
  skip_one_node g (SReplay prev (events_of n ++ rest) ref) =
  SkOk (SReplay (last_ev (events_of n) prev) rest ref).
Proof.
  intros Hg.
  assert (Hz : forall g0 x, skip_depth (S g0) x 0 = SkOk x) by (intros; reflexivity).
  destruct n as [v tag raw st a l|a tag raw l items endl|a l entries endl].
  - reflexivity.
  - pose proof (skip_depth_node_sized _ (NdSeq a tag raw l items endl) (le_n _) (S g) prev rest ref 1 ltac:(lia) ltac:(lia)) as H.
    cbn [events_of app] in H. cbn [skip_depth src_next] in H. change (1 =? 0) with false in H. cbn iota in H.
    unfold skip_one_node. cbn [events_of app src_next].
    replace (1 + 1) with 2 in H by reflexivity.
    (* the lemma above starts one event earlier at depth 1; unfold it by hand instead *)
    clear H.
    assert (Hitems := skip_depth_node_sized).
    cbn [events_of length] in Hg. rewrite app_length in Hg. cbn [length] in Hg.
    (* items at depth 1, then the end marker *)
    assert (Hl : forall its g0 prev0 tail, (length (flat_map events_of its) <= g0)%nat ->
      skip_depth g0 (SReplay prev0 (flat_map events_of its ++ tail) ref) 1 =
      skip_depth (g0 - length (flat_map events_of its)) (SReplay (last_ev (flat_map events_of its) prev0) tail ref) 1).
    { intros its. induction its as [|i its IHi]; intros g0 prev0 tail Hg0.
      - cbn. replace (g0 - 0)%nat with g0 by lia. reflexivity.
      - cbn [flat_map] in *. rewrite app_length in Hg0. rewrite <- app_assoc.
        rewrite (Hitems _ i (le_n _) g0 prev0 _ ref 1 ltac:(lia) ltac:(lia)).
        rewrite IHi by lia. rewrite app_length. f_equal; [lia|]. f_equal. rewrite last_ev_app_gen. reflexivity. }
    rewrite <- app_assoc. rewrite Hl by lia. cbn [app].
    destruct (g - length (flat_map events_of items))%nat as [|g1] eqn:Eg; [lia|].
    cbn [skip_depth src_next]. change (1 =? 0) with false. cbn iota.
    destruct g1 as [|g2]; [lia|]. replace (1 - 1) with 0 by reflexivity. rewrite Hz.
    f_equal. f_equal.
    change (ESeqStart a tag raw l :: flat_map events_of items ++ [ESeqEnd endl])
      with ((ESeqStart a tag raw l :: flat_map events_of items) ++ [ESeqEnd endl]).
    unfold last_ev. rewrite rev_app_distr. reflexivity.
  - assert (Hitems := skip_depth_node_sized).
    rewrite events_of_map in *. cbn [length] in Hg. rewrite app_length in Hg. cbn [length] in Hg.
    unfold skip_one_node. cbn [app src_next].
    assert (Hl : forall ents g0 prev0 tail, (length (entries_events ents) <= g0)%nat ->
      skip_depth g0 (SReplay prev0 (entries_events ents ++ tail) ref) 1 =
      skip_depth (g0 - length (entries_events ents)) (SReplay (last_ev (entries_events ents) prev0) tail ref) 1).
    { intros ents. induction ents as [|[ek ev0] ents IHe]; intros g0 prev0 tail Hg0.
      - cbn. replace (g0 - 0)%nat with g0 by lia. reflexivity.
      - cbn [entries_events] in *. rewrite !app_length in Hg0. rewrite <- !app_assoc.
        rewrite (Hitems _ ek (le_n _) g0 prev0 _ ref 1 ltac:(lia) ltac:(lia)).
        rewrite (Hitems _ ev0 (le_n _) (g0 - length (events_of ek))%nat _ _ ref 1 ltac:(lia) ltac:(lia)).
        rewrite IHe by lia. rewrite !app_length. f_equal; [lia|]. f_equal. rewrite !last_ev_app_gen. reflexivity. }
    rewrite <- app_assoc. rewrite Hl by lia. cbn [app].
    destruct (g - length (entries_events entries))%nat as [|g1] eqn:Eg; [lia|].
    cbn [skip_depth src_next]. change (1 =? 0) with false. cbn iota.
    destruct g1 as [|g2]; [lia|]. replace (1 - 1) with 0 by reflexivity. rewrite Hz.
    f_equal. f_equal.
    change (EMapStart a l :: entries_events entries ++ [EMapEnd endl])
      with ((EMapStart a l :: entries_events entries) ++ [EMapEnd endl]).
    unfold last_ev. rewrite rev_app_distr. reflexivity.
Qed.

(* ---- the duplicate-key policy at one own entry of a mapping (live branch of next_key_seed,
        the events coming from a replay buffer) ---- *)
Definition plain_entry_state (m : ma) : Prop := ma_pending m = [] /\ ma_flushing m = false.

Definition ordinary_key (key : enode) : Prop :=
  is_merge_key (mkKN (fp_of key) (events_of key) (loc_of key)) = false
  /\ kemn_one_entry_nullish (fp_of key) = false.

(* one unfolding of ma_next_key at an entry whose key node is [key] *)
Lemma ma_next_key_entry_unfold f c m key more prev ref :
  plain_entry_state m -> (2 * nsize key <= f)%nat -> ordinary_key key ->
  ma_next_key (S f) c m (SReplay prev (events_of key ++ more) ref) =
  let x1 := SReplay (last_ev (events_of key) prev) more ref in
  let dup := fp_mem (fp_of key) (ma_seen m) in
  let proceed :=
    KKey (events_of key) (kemn_direct (fp_of key)) (loc_of key)
         (mkMA (fp_of key :: ma_seen m) [] (ma_merge_stack m) false None) x1 in
  match dc_dup c with
  | DupError => if dup then KErr (Err E_DuplicateMappingKey (loc_of key)) else proceed
  | DupFirstWins =>
    if dup then
      match skip_one_node f x1 with
      | SkErr e => KErr e
      | SkFuel => KFuel
      | SkOk x2 => ma_next_key f c m x2
      end
    else proceed
  | DupLastWins => proceed
  end.
Proof.
  intros [Hp Hfl] Hf [Hmk Hk1].
  destruct m as [seen pend stack fl pv]. cbn in Hp, Hfl. subst pend fl.
  assert (Hpeek : exists e0 x', src_peek (SReplay prev (events_of key ++ more) ref) = NSome e0 x'
                                /\ x' = SReplay prev (events_of key ++ more) ref
                                /\ (forall l, e0 <> EMapEnd l)).
  { destruct key; cbn; eexists; eexists; repeat split; intros; discriminate. }
  destruct Hpeek as (e0 & x' & Hpk & -> & Hne).
  cbn [ma_next_key ma_pending ma_flushing]. rewrite Hpk.
  destruct e0; try (exfalso; eapply Hne; reflexivity).
  all: rewrite (capture_exact key f prev more ref Hf); unfold captured;
    rewrite Hmk; cbn [kn_fp kn_events kn_loc ma_seen ma_merge_stack ma_pending_value];
    rewrite Hk1; reflexivity.
Qed.

(* Error policy: a repeated key is rejected at the location of the repeated key *)
Corollary policy_error_rejects f c m key more prev ref :
  plain_entry_state m -> (2 * nsize key <= f)%nat -> ordinary_key key ->
  dc_dup c = DupError -> In (fp_of key) (ma_seen m) ->
  ma_next_key (S f) c m (SReplay prev (events_of key ++ more) ref) =
  KErr (Err E_DuplicateMappingKey (loc_of key)).
Proof.
  intros Hm Hf Hk Hc Hin. rewrite ma_next_key_entry_unfold by assumption. cbn zeta. rewrite Hc.
  apply fp_mem_In in Hin. rewrite Hin. reflexivity.
Qed.

(* FirstWins: a repeated key and its whole value are deleted, whatever the size of the value *)
Corollary policy_first_wins_skips f c m key value rest prev ref :
  plain_entry_state m -> (2 * nsize key <= f)%nat -> (length (events_of value) + 1 <= f)%nat ->
  ordinary_key key -> dc_dup c = DupFirstWins -> In (fp_of key) (ma_seen m) ->
  ma_next_key (S f) c m (SReplay prev (events_of key ++ events_of value ++ rest) ref) =
  ma_next_key f c m (SReplay (last_ev (events_of value) (last_ev (events_of key) prev)) rest ref).
Proof.
  intros Hm Hf Hv Hk Hc Hin. rewrite ma_next_key_entry_unfold by assumption. cbn zeta. rewrite Hc.
  apply fp_mem_In in Hin. rewrite Hin. rewrite skip_exact by exact Hv. reflexivity.
Qed.

(* a key not seen before (any policy), or any key under LastWins, is delivered as it stands and
   recorded as seen; the value is left in the stream *)
Corollary policy_delivers f c m key more prev ref :
  plain_entry_state m -> (2 * nsize key <= f)%nat -> ordinary_key key ->
  (dc_dup c = DupLastWins \/ ~ In (fp_of key) (ma_seen m)) ->
  ma_next_key (S f) c m (SReplay prev (events_of key ++ more) ref) =
  KKey (events_of key) (kemn_direct (fp_of key)) (loc_of key)
       (mkMA (fp_of key :: ma_seen m) [] (ma_merge_stack m) false None)
       (SReplay (last_ev (events_of key) prev) more ref).
Proof.
  intros Hm Hf Hk Hc. rewrite ma_next_key_entry_unfold by assumption. cbn zeta.
  destruct Hc as [Hc|Hn].
  - rewrite Hc. reflexivity.
  - assert (Hd : fp_mem (fp_of key) (ma_seen m) = false).
    { destruct (fp_mem (fp_of key) (ma_seen m)) eqn:E; [|reflexivity]. apply fp_mem_In in E. contradiction. }
    rewrite Hd. destruct (dc_dup c); reflexivity.
Qed.

(* fingerprints identify keys structurally: same kind, scalar text, tag class and children;
   style, anchors, raw tag spelling and positions are irrelevant *)
Inductive same_key : enode -> enode -> Prop :=
| SkScalar v tag r1 r2 s1 s2 a1 a2 l1 l2 : same_key (NdScalar v tag r1 s1 a1 l1) (NdScalar v tag r2 s2 a2 l2)
| SkSeq a1 a2 t1 t2 r1 r2 l1 l2 e1 e2 i1 i2 :
    Forall2 same_key i1 i2 -> same_key (NdSeq a1 t1 r1 l1 i1 e1) (NdSeq a2 t2 r2 l2 i2 e2)
| SkMap a1 a2 l1 l2 e1 e2 m1 m2 :
    Forall2 (fun p q => same_key (fst p) (fst q) /\ same_key (snd p) (snd q)) m1 m2 ->
    same_key (NdMap a1 l1 m1 e1) (NdMap a2 l2 m2 e2).

Lemma fingerprint_iff_sized : forall k n1 n2, (nsize n1 <= k)%nat -> (fp_of n1 = fp_of n2 <-> same_key n1 n2).
Proof.
  induction k as [|k IH]; intros n1 n2 Hk; [pose proof (nsize_pos n1); lia|].
  destruct n1 as [v tag raw st a l|a tag raw l items endl|a l entries endl];
    destruct n2 as [v' tag' raw' st' a' l'|a' tag' raw' l' items' endl'|a' l' entries' endl'];
    try (split; intros H; [cbn in H; try discriminate; try (rewrite fp_of_map in H; discriminate)|inversion H]; fail).
  - cbn. split; intros H; [inversion H; constructor|inversion H; reflexivity].
  - cbn [fp_of]. cbn [nsize] in Hk. fold (items_size items) in Hk.
    split.
    + intros H. inversion H as [Hm]. constructor.
      clear H. revert items' Hm. induction items as [|i items IHi]; intros [|i' items'] Hm; cbn in Hm; try discriminate.
      * constructor.
      * inversion Hm. cbn [items_size fold_right] in Hk. fold (items_size items) in Hk. pose proof (nsize_pos i).
        constructor; [apply (IH i i'); [lia|assumption]|apply IHi; [lia|assumption]].
    + intros H. inversion H as [| ? ? ? ? ? ? ? ? ? ? ? ? HF|]; subst. f_equal.
      clear H. revert Hk. induction HF as [|i i' items items' Hs HF IHF]; intros Hk; [reflexivity|].
      cbn [items_size fold_right] in Hk. fold (items_size items) in Hk. pose proof (nsize_pos i).
      cbn [map]. f_equal; [apply (IH i i'); [lia|assumption]|apply IHF; lia].
  - rewrite !fp_of_map. rewrite nsize_map in Hk.
    split.
    + intros H. inversion H as [Hm]. constructor.
      clear H. revert entries' Hm. induction entries as [|[ek ev0] entries IHe]; intros [|[ek' ev0'] entries'] Hm; cbn in Hm; try discriminate.
      * constructor.
      * inversion Hm. cbn [entries_size] in Hk. pose proof (nsize_pos ek). pose proof (nsize_pos ev0).
        constructor; [split; cbn [fst snd]; [apply (IH ek ek')|apply (IH ev0 ev0')]; (lia || assumption)|apply IHe; [lia|assumption]].
    + intros H. inversion H as [| |? ? ? ? ? ? ? ? HF]; subst. f_equal.
      clear H. revert Hk. induction HF as [|[ek ev0] [ek' ev0'] entries entries' [Hs1 Hs2] HF IHF]; intros Hk; [reflexivity|].
      cbn [entries_size] in Hk. cbn [fst snd] in *. pose proof (nsize_pos ek). pose proof (nsize_pos ev0).
      cbn [entries_fp]. f_equal; [f_equal; [apply (IH ek ek')|apply (IH ev0 ev0')]; (lia || assumption)|apply IHF; lia].
Qed.

Theorem fingerprint_iff n1 n2 : fp_of n1 = fp_of n2 <-> same_key n1 n2.
Proof. apply (fingerprint_iff_sized (nsize n1)). lia. Qed.
