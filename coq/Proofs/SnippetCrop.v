(* SnippetCrop.v -- column/offset conversion, the vertical window and the cropping arithmetic (C17). *)
From SS Require Import Model.Snippet Proofs.SnippetSan.
From Coq Require Import Lia ZifyBool ZifyN ZifyNat.
Local Open Scope N_scope.

(* ---- the vertical window: at most five rows, always containing the error row ---- *)
Theorem window_rows_spec row total :
  1 <= row -> row <= total -> total <= SN_USIZE_MAX ->
  let '(ws, we) := window_rows row total in
  1 <= ws /\ ws <= row /\ row <= we /\ we <= total /\ we - ws <= 4 /\ row - ws <= 2 /\ we - row <= 2.
Proof.
  intros H1 H2 H3. unfold window_rows, add_sat, SN_USIZE_MAX in *.
  destruct (18446744073709551615 <? row + 2) eqn:E; cbv beta iota zeta; repeat split; lia.
Qed.

(* ---- column -> byte offset ---- *)
Definition nonconts (s : bytes) : N := char_count s.

Lemma char_count_cons b r : char_count (b :: r) = (if is_cont b then 0 else 1) + char_count r.
Proof. unfold char_count. cbn [filter]. destruct (is_cont b); cbn [negb length]; lia. Qed.

Lemma char_count_nil : char_count [] = 0.
Proof. reflexivity. Qed.

Lemma char_count_app a b : char_count (a ++ b) = char_count a + char_count b.
Proof. unfold char_count. rewrite filter_app, app_length. lia. Qed.

(* the offset returned for column [target] has exactly target-col characters before it, lies inside
   the line, and is a character boundary (the end, or a non-continuation byte) *)
Lemma col_off_go_spec : forall line i col target j,
  col_off_go line i col target = Some j ->
  col <= target /\ i <= j /\ j <= i + blen line
  /\ char_count (firstn (N.to_nat (j - i)) line) = target - col
  /\ (j = i + blen line \/ exists b, nth_error line (N.to_nat (j - i)) = Some b /\ is_cont b = false).
Proof.
  induction line as [|b r IH]; intros i col target j H; cbn [col_off_go] in H.
  - destruct (col =? target) eqn:E; [|discriminate]. inversion H; subst.
    rewrite N.sub_diag. unfold blen. cbn [length N.of_nat N.to_nat firstn]. rewrite char_count_nil.
    split; [lia|]. split; [lia|]. split; [lia|]. split; [lia|]. left; lia.
  - destruct (is_cont b) eqn:Eb.
    + apply IH in H. destruct H as (H1 & H2 & H3 & H4 & H5). unfold blen in *. cbn [length].
      assert (N.to_nat (j - i) = S (N.to_nat (j - (i + 1)))) as -> by lia.
      cbn [firstn nth_error]. rewrite char_count_cons, Eb.
      split; [lia|]. split; [lia|]. split; [lia|]. split; [lia|].
      destruct H5 as [H5|H5]; [left; lia|right; exact H5].
    + destruct (col =? target) eqn:E.
      * inversion H; subst. rewrite N.sub_diag. cbn [N.to_nat firstn nth_error].
        unfold blen. rewrite char_count_nil. split; [lia|]. split; [lia|]. split; [lia|]. split; [lia|].
        right. exists b. split; [reflexivity|exact Eb].
      * apply IH in H. destruct H as (H1 & H2 & H3 & H4 & H5). unfold blen in *. cbn [length].
        assert (N.to_nat (j - i) = S (N.to_nat (j - (i + 1)))) as -> by lia.
        cbn [firstn nth_error]. rewrite char_count_cons, Eb.
        split; [lia|]. split; [lia|]. split; [lia|]. split; [lia|].
        destruct H5 as [H5|H5]; [left; lia|right; exact H5].
Qed.

Theorem col_to_byte_spec line col j :
  col_to_byte line col = Some j ->
  1 <= col /\ j <= blen line
  /\ char_count (firstn (N.to_nat j) line) = col - 1
  /\ (j = blen line \/ exists b, nth_error line (N.to_nat j) = Some b /\ is_cont b = false).
Proof.
  unfold col_to_byte. destruct (col =? 0) eqn:E; [discriminate|]. intros H.
  apply col_off_go_spec in H. destruct H as (H1 & H2 & H3 & H4 & H5).
  rewrite N.sub_0_r in *. rewrite N.add_0_l in *.
  split; [lia|]. split; [lia|]. split; [rewrite H4; lia|]. exact H5.
Qed.

(* every column from 1 to (number of characters + 1) has an offset *)
Lemma col_off_go_total : forall line i col target,
  col <= target -> target <= col + char_count line -> exists j, col_off_go line i col target = Some j.
Proof.
  induction line as [|b r IH]; intros i col target H1 H2; cbn [col_off_go].
  - rewrite char_count_nil in H2. assert (col =? target = true) as -> by lia. eauto.
  - rewrite char_count_cons in H2. destruct (is_cont b).
    + apply IH; lia.
    + destruct (col =? target) eqn:E; [eauto|]. apply IH; lia.
Qed.

Theorem col_to_byte_total line col :
  1 <= col -> col <= char_count line + 1 -> exists j, col_to_byte line col = Some j.
Proof.
  intros H1 H2. unfold col_to_byte. assert (col =? 0 = false) as -> by lia.
  apply col_off_go_total; lia.
Qed.

(* ---- crop_line: shape of the output and the rebasing data ---- *)
Theorem crop_line_shape line left right :
  let '(out, sb, pb) := crop_line line left right in
  exists pre mid post,
    out = pre ++ mid ++ post /\ blen pre = pb
    /\ (pre = [] \/ pre = ELLIPSIS) /\ (post = [] \/ post = ELLIPSIS)
    /\ (mid = line \/ exists eb, mid = slice line sb eb).
Proof.
  unfold crop_line.
  destruct (char_count line =? 0) eqn:E0.
  { exists [], [], []. split; [reflexivity|]. split; [reflexivity|]. split; [left; reflexivity|].
    split; [left; reflexivity|]. right. exists 0. reflexivity. }
  destruct (add_sat (char_count line) 1 <=? left) eqn:E1.
  { exists [], line, []. rewrite app_nil_r. split; [reflexivity|]. split; [reflexivity|].
    split; [left; reflexivity|]. split; [left; reflexivity|]. left; reflexivity. }
  destruct ((left <=? 1) && (char_count line <=? right)) eqn:E2.
  { exists [], line, []. rewrite app_nil_r. split; [reflexivity|]. split; [reflexivity|].
    split; [left; reflexivity|]. split; [left; reflexivity|]. left; reflexivity. }
  match goal with |- context [if ?c then ELLIPSIS else []] => destruct c eqn:LC end;
  match goal with |- context [slice line ?a ?b ++ (if ?c then ELLIPSIS else [])] => destruct c eqn:RC end.
  - eexists ELLIPSIS, _, ELLIPSIS. split; [reflexivity|]. split; [reflexivity|]. split; [right; reflexivity|]. split; [right; reflexivity|]. right. eexists. reflexivity.
  - eexists ELLIPSIS, _, []. split; [reflexivity|]. split; [reflexivity|]. split; [right; reflexivity|]. split; [left; reflexivity|]. right. eexists. reflexivity.
  - eexists [], _, ELLIPSIS. split; [reflexivity|]. split; [reflexivity|]. split; [left; reflexivity|]. split; [right; reflexivity|]. right. eexists. reflexivity.
  - eexists [], _, []. split; [reflexivity|]. split; [reflexivity|]. split; [left; reflexivity|]. split; [left; reflexivity|]. right. eexists. reflexivity.
Qed.

(* number of characters in a slice between two column offsets *)
Lemma char_count_firstn_skipn s n : char_count s = char_count (firstn n s) + char_count (skipn n s).
Proof. rewrite <- char_count_app, firstn_skipn. reflexivity. Qed.

Lemma slice_as_skipn_firstn s a b : a <= b -> slice s a b = skipn (N.to_nat a) (firstn (N.to_nat b) s).
Proof.
  intros H. unfold slice. rewrite skipn_firstn_comm. f_equal. lia.
Qed.

Lemma col_off_go_mono : forall line i col t1 t2 j1 j2,
  col_off_go line i col t1 = Some j1 -> col_off_go line i col t2 = Some j2 -> t1 <= t2 -> j1 <= j2.
Proof.
  induction line as [|b r IH]; intros i col t1 t2 j1 j2 H1 H2 Ht; cbn [col_off_go] in *.
  - destruct (col =? t1); [|discriminate]. destruct (col =? t2); [|discriminate].
    inversion H1; inversion H2; subst. lia.
  - destruct (is_cont b).
    + eapply IH; eassumption.
    + destruct (col =? t1) eqn:E1.
      * inversion H1; subst. destruct (col =? t2) eqn:E2; [inversion H2; subst; lia|].
        apply col_off_go_spec in H2. lia.
      * destruct (col =? t2) eqn:E2.
        { apply col_off_go_spec in H1. lia. }
        eapply IH; eassumption.
Qed.

Lemma char_count_slice line c1 c2 j1 j2 :
  col_to_byte line c1 = Some j1 -> col_to_byte line c2 = Some j2 -> c1 <= c2 ->
  j1 <= j2 /\ char_count (slice line j1 j2) = c2 - c1.
Proof.
  intros H1 H2 Hc.
  assert (Hj : j1 <= j2).
  { unfold col_to_byte in H1, H2. destruct (c1 =? 0); [discriminate|]. destruct (c2 =? 0); [discriminate|].
    eapply col_off_go_mono; eassumption. }
  apply col_to_byte_spec in H1. apply col_to_byte_spec in H2.
  destruct H1 as (A1 & A2 & A3 & _). destruct H2 as (B1 & B2 & B3 & _).
  split; [exact Hj|].
  rewrite slice_as_skipn_firstn by exact Hj.
  pose proof (char_count_firstn_skipn (firstn (N.to_nat j2) line) (N.to_nat j1)) as E.
  rewrite firstn_firstn in E. replace (Nat.min (N.to_nat j1) (N.to_nat j2)) with (N.to_nat j1) in E by lia. lia.
Qed.

Lemma char_count_ellipsis : char_count ELLIPSIS = 1.
Proof. reflexivity. Qed.

(* a cropped line shows at most the columns left..right plus one ellipsis on each side *)
Theorem crop_line_width line left right :
  1 <= left -> left <= right + 1 -> right < SN_USIZE_MAX -> char_count line < SN_USIZE_MAX ->
  let out := fst (fst (crop_line line left right)) in
  out = line \/ out = [] \/ char_count out <= right - left + 3.
Proof.
  intros Hl Hlr Hr Hn. unfold crop_line.
  destruct (char_count line =? 0) eqn:E0; [right; left; reflexivity|].
  unfold add_sat. unfold SN_USIZE_MAX in *.
  destruct (18446744073709551615 <? char_count line + 1) eqn:S1; [lia|].
  destruct (char_count line + 1 <=? left) eqn:E1; [left; reflexivity|].
  destruct ((left <=? 1) && (char_count line <=? right)) eqn:E2; [left; reflexivity|].
  destruct (18446744073709551615 <? right + 1) eqn:S2; [lia|].
  right; right. cbn [fst].
  set (n := char_count line) in *.
  assert (Hs : N.min left (n + 1) = left) by lia. rewrite Hs.
  destruct (col_to_byte_total line left) as [sb Hsb]; [lia|fold n; lia|].
  destruct (col_to_byte_total line (N.min (right + 1) (n + 1))) as [eb Heb]; [lia|fold n; lia|].
  rewrite Hsb, Heb.
  destruct (char_count_slice line left (N.min (right + 1) (n + 1)) sb eb Hsb Heb) as [Hj Hc]; [lia|].
  rewrite !char_count_app, Hc.
  clear Hsb Heb Hc E2.
  destruct ((1 <? left) && (0 <? sb)); destruct ((N.min (right + 1) (n + 1) <=? n) && (eb <? blen line));
    rewrite ?char_count_ellipsis, ?char_count_nil; lia.
Qed.

(* the rebased span handed to the renderer always lies inside the cropped text *)
Theorem crop_window_span w wsr erow ecol radius ls le :
  ls <= le -> le <= blen w ->
  let '(out, ns, ne) := crop_window w wsr erow ecol radius ls le in
  ns <= ne /\ ne <= blen out.
Proof.
  intros H1 H2. unfold crop_window.
  destruct ((radius =? 0) && negb (existsb (N.eqb 13) w) && is_clean w); [split; assumption|].
  match goal with |- context [fold_left ?f ?l ?i] => set (st := fold_left f l i) end.
  destruct (negb (cw_reb st) && ends_with_nl w && (cw_row st =? erow));
    unfold blen; rewrite sanitize_length;
    match goal with |- context [if ?c then _ else _] => destruct c eqn:E end; lia.
Qed.

(* ... and the output of crop_window is always terminal-clean and as long as the cropped lines *)
Theorem crop_window_clean w wsr erow ecol radius ls le :
  is_clean (fst (fst (crop_window w wsr erow ecol radius ls le))) = true.
Proof.
  unfold crop_window.
  destruct ((radius =? 0) && negb (existsb (N.eqb 13) w) && is_clean w) eqn:E.
  - cbn [fst]. apply andb_true_iff in E. apply E.
  - match goal with |- context [fold_left ?f ?l ?i] => set (st := fold_left f l i) end.
    destruct (negb (cw_reb st) && ends_with_nl w && (cw_row st =? erow)); cbn [fst]; apply sanitize_clean.
Qed.
