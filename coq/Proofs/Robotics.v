(* Robotics.v -- C19: the decision rules of the evaluator: the depth guard, degrees converted exactly
   once, mixed units under a Degrees tag rejected, trailing text rejected. *)
From SS Require Import Model.Robotics.
From Coq Require Import Lia.
Local Open Scope N_scope.

(* '(' and a function call are refused once 256 levels are open -- whatever follows *)
Theorem paren_refused_at_depth_limit f r depth tag t :
  (MAX_EXPR_DEPTH <= depth)%Z -> p_primary (S f) (40 :: r) depth tag t = PErr.
Proof.
  intros H. cbn [p_primary skip_ws is_ws_b]. 
  replace (is_ws_b 40) with false by reflexivity. cbn [skip_ws].
  replace (40 =? 40) with true by reflexivity.
  destruct (Z.leb_spec MAX_EXPR_DEPTH depth); [reflexivity|lia].
Qed.

(* the top level: a value computed without any unit is converted once under a Degrees tag and left
   alone otherwise; a value that already went through deg()/rad()/a sexagesimal form is never
   converted again; bare terms mixed with unitized ones under a Degrees tag are rejected *)
Theorem top_level_units fuel s tag v used plain r :
  p_expr fuel (skip_ws s) 0%Z tag true = POk (v, used, plain) r -> skip_ws r = [] ->
  eval_scalar fuel s tag =
    if negb used then POk (match tag with RtDegrees => (v * DEG2RAD)%float | _ => v end) []
    else if (match tag with RtDegrees => true | _ => false end) && plain then PErr
    else POk v [].
Proof. intros H Hr. unfold eval_scalar. rewrite H, Hr. reflexivity. Qed.

Theorem trailing_text_rejected fuel s tag ev r c r' :
  p_expr fuel (skip_ws s) 0%Z tag true = POk ev r -> skip_ws r = c :: r' ->
  eval_scalar fuel s tag = PErr.
Proof. intros H Hr. unfold eval_scalar. rewrite H. destruct ev as [[v u] p]. rewrite Hr. reflexivity. Qed.

Theorem errors_propagate fuel s tag :
  p_expr fuel (skip_ws s) 0%Z tag true = PErr -> eval_scalar fuel s tag = PErr.
Proof. intros H. unfold eval_scalar. rewrite H. reflexivity. Qed.
