(* MultiDoc.v -- multi-document entry points (C11): the single-document entry point rejects a
   second document, the batch function skips null documents and stops at the first error, the
   iterator's skip makes progress, document boundaries isolate anchors. *)
From SS Require Import Model.Deser Proofs.LiveBasic Proofs.LiveBounds.
From Coq Require Import Lia.
Local Open Scope N_scope.

(* from_str: whenever the value has been read and the stream still delivers an event, the result
   is MultipleDocuments -- never the first document's value *)
Lemma single_rejects_second fuel o t items v s r op e s' r' :
  deser fuel (eo_cfg o) false t (SLive (live_new (eo_budget o) false (eo_limits o) false) items 0) = DOk v (SLive s r op) ->
  live_peek s r = Yield e s' r' ->
  from_str_model fuel o t items = OErr (Err E_MultipleDocuments (lv_last s')).
Proof. intros Hd Hp. unfold from_str_model. rewrite Hd, Hp. reflexivity. Qed.

Lemma single_accepts_only_at_end fuel o t items v :
  from_str_model fuel o t items = OOk v ->
  exists s r op, deser fuel (eo_cfg o) false t (SLive (live_new (eo_budget o) false (eo_limits o) false) items 0) = DOk v (SLive s r op)
    /\ (forall e s' r', live_peek s r <> Yield e s' r').
Proof.
  unfold from_str_model. destruct (deser _ _ _ _ _) as [v' x|e|] eqn:Hd; try discriminate.
  - destruct x as [s r op|]; [|discriminate].
    destruct (live_peek s r) as [e s' r'|s' r'|e s' r'] eqn:Hp; try discriminate.
    + destruct (live_finish s') as [rep [e'|]]; [discriminate|]. intros H; inversion H; subst.
      exists s, r, op. split; [reflexivity|]. intros ? ? ? Hc; rewrite Hp in Hc; discriminate.
    + destruct (lv_seen_doc_end s' && is_syntax_err e); [|discriminate].
      destruct (live_finish s') as [rep [e'|]]; [discriminate|]. intros H; inversion H; subst.
      exists s, r, op. split; [reflexivity|]. intros ? ? ? Hc; rewrite Hp in Hc; discriminate.
  - destruct (synthesized_first _ _); discriminate.
Qed.

(* from_multiple: a null-like root document contributes nothing, the first failing document's error
   is the result *)
Lemma batch_skips_null_document f o t s rest e s' rest' acc :
  live_peek s rest = Yield e s' rest' -> ev_scalar_nullish e = true ->
  from_multiple_loop (S f) o t s rest acc =
  match live_next s' rest' with
  | Fail e' _ _ => MErr e'
  | Yield _ s2 r2 | Eos s2 r2 => from_multiple_loop f o t s2 r2 acc
  end.
Proof. intros Hp Hn. cbn [from_multiple_loop]. rewrite Hp, Hn. reflexivity. Qed.

Lemma batch_first_error_wins f o t s rest e s' rest' acc er :
  live_peek s rest = Yield e s' rest' -> ev_scalar_nullish e = false ->
  deser f (eo_cfg o) false t (SLive s' rest' 0) = DErr er ->
  from_multiple_loop (S f) o t s rest acc = MErr er.
Proof. intros Hp Hn Hd. cbn [from_multiple_loop]. rewrite Hp, Hn, Hd. reflexivity. Qed.

Lemma batch_collects f o t s rest e s' rest' acc v s2 r2 :
  live_peek s rest = Yield e s' rest' -> ev_scalar_nullish e = false ->
  deser f (eo_cfg o) false t (SLive s' rest' 0) = DOk v (SLive s2 r2 0) ->
  from_multiple_loop (S f) o t s rest acc = from_multiple_loop f o t s2 r2 (v :: acc).
Proof. intros Hp Hn Hd. cbn [from_multiple_loop]. rewrite Hp, Hn, Hd. reflexivity. Qed.

(* the iterator's recovery: skipping to the next document consumes input, and when it reports a
   next document it has consumed that document's start marker and emptied all per-document state *)
Lemma skip_go_shrinks : forall rest s found s' r',
  skip_go rest s = (found, s', r') ->
  (length r' <= length rest)%nat /\ (found = true -> (length r' < length rest)%nat
     /\ lv_anchors s' = [] /\ lv_rec s' = [] /\ lv_inject s' = [] /\ lv_produced_any s' = false).
Proof.
  induction rest as [|item r IH]; intros s found s' r' H; cbn [skip_go] in H.
  - inversion H; subst. split; [lia|discriminate].
  - destruct item as [raw sp|m ua].
    + destruct raw; try (apply IH in H; destruct H as [H1 H2]; split; [cbn; lia|intros Hf; destruct (H2 Hf) as (? & ?); split; [cbn; lia|assumption]]).
      * inversion H; subst. split; [cbn; lia|discriminate].
      * inversion H; subst. split; [cbn; lia|]. intros _. split; [cbn; lia|].
        unfold document_started_after_skip.
        destruct (lv_budget _) as [enf|]; cbn; repeat split; reflexivity.
    + inversion H; subst. split; [cbn; lia|discriminate].
Qed.

Lemma iterator_resumes_at_next_document s rest s2 r2 :
  skip_to_next_document s rest = (true, s2, r2) ->
  (length r2 < length rest)%nat /\ lv_anchors s2 = [] /\ lv_rec s2 = [] /\ lv_inject s2 = []
  /\ lv_produced_any s2 = false.
Proof. unfold skip_to_next_document. intros H. apply skip_go_shrinks in H. destruct H as [_ H]. apply H. reflexivity. Qed.

Lemma iterator_ends_when_skip_fails f o t s rest e s' rest' er :
  live_peek s rest = Yield e s' rest' -> ev_scalar_nullish e = false ->
  deser f (eo_cfg o) false t (SLive s' rest' 0) = DErr er ->
  fst (fst (skip_to_next_document s' (resume_point er rest'))) = false ->
  read_iter (S f) o t s rest = inl [IErr er].
Proof.
  intros Hp Hn Hd Hs. cbn [read_iter]. rewrite Hp, Hn, Hd.
  destruct (skip_to_next_document s' (resume_point er rest')) as [[b s2] r2]. cbn in Hs. subst b. reflexivity.
Qed.

(* ... and an error that is not the scanner's own (a budget breach, an I/O failure) met while probing for
   further content is returned, whatever has been seen before: it is never taken for trailing garbage *)
Lemma single_never_drops_a_non_syntax_error fuel o t items v s r op e s' r' :
  deser fuel (eo_cfg o) false t (SLive (live_new (eo_budget o) false (eo_limits o) false) items 0) = DOk v (SLive s r op) ->
  live_peek s r = Fail e s' r' -> is_syntax_err e = false ->
  from_str_model fuel o t items = OErr e.
Proof. intros Hd Hp He. unfold from_str_model. rewrite Hd, Hp, He, andb_false_r. reflexivity. Qed.
