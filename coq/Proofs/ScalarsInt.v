(* ScalarsInt.v -- integers are read exactly or rejected: the checked u128/i128 accumulation of
   parse_scalars.rs equals the unbounded positional value followed by one range test. *)
From SS Require Import Model.Scalars.
From Coq Require Import Lia ZifyBool ZifyN.
Local Open Scope N_scope.

(* ---- the specification: unbounded positional value of a digit string (`_` separators) ---- *)
Fixpoint digits_value_go (radix : N) (ds : str) (val : N) (saw : bool) : option N :=
  match ds with
  | [] => if saw then Some val else None
  | c :: r =>
    if c =? 95 then digits_value_go radix r val saw
    else match digit_val radix c with
         | None => None
         | Some d => digits_value_go radix r (val * radix + d) true
         end
  end.
Definition digits_value (radix : N) (ds : str) : option N := digits_value_go radix ds 0 false.

(* exact mathematical reading of a signed integer scalar of [bits] bits *)
Definition spec_int_signed (bits : N) (s : str) (legacy : bool) : option Z :=
  let '(neg, rest) := sign_split (trim s) in
  let '(radix, digits) := radix_and_digits legacy rest in
  match digits_value radix digits with
  | None => None
  | Some m =>
    let v := if neg then (- Z.of_N m)%Z else Z.of_N m in
    if ((smin bits <=? v) && (v <=? smax bits))%Z then Some v else None
  end.

Definition spec_int_unsigned (bits : N) (s : str) (legacy : bool) : option N :=
  let t := trim s in
  if starts_with [45] t then None else
  let rest := match strip_prefix [43] t with Some r => r | None => t end in
  let '(radix, digits) := radix_and_digits legacy rest in
  match digits_value radix digits with
  | None => None
  | Some m => if m <=? umax bits then Some m else None
  end.

Definition width_ok (bits : N) : Prop := bits = 8 \/ bits = 16 \/ bits = 32 \/ bits = 64 \/ bits = 128.

(* ---- monotonicity of the positional value ---- *)
Lemma digits_value_go_ge radix ds : 1 <= radix ->
  forall val saw m, digits_value_go radix ds val saw = Some m -> val <= m.
Proof.
  intros Hr. induction ds as [|c r IH]; intros val saw m H; cbn [digits_value_go] in H.
  - destruct saw; inversion H; lia.
  - destruct (c =? 95); [eauto|].
    destruct (digit_val radix c) as [d|]; [|discriminate].
    apply IH in H. nia.
Qed.

(* ---- checked accumulation = unbounded accumulation + final range test ---- *)
Lemma parse_digits_u128_go_spec radix ds : 1 <= radix ->
  forall val saw, val <= U128_MAX ->
  parse_digits_u128_go radix ds val saw =
  match digits_value_go radix ds val saw with
  | Some m => if m <=? U128_MAX then Some m else None
  | None => None
  end.
Proof.
  intros Hr. induction ds as [|c r IH]; intros val saw Hv;
    cbn [parse_digits_u128_go digits_value_go].
  - destruct saw; [|reflexivity]. destruct (N.leb_spec val U128_MAX); [reflexivity|lia].
  - destruct (c =? 95); [apply IH; exact Hv|].
    destruct (digit_val radix c) as [d|]; [|reflexivity].
    destruct (N.ltb_spec U128_MAX (val * radix)) as [Ho|Ho].
    + destruct (digits_value_go radix r (val * radix + d) true) as [m|] eqn:E; [|reflexivity].
      apply digits_value_go_ge in E; [|exact Hr].
      destruct (N.leb_spec m U128_MAX); [lia|reflexivity].
    + destruct (N.ltb_spec U128_MAX (val * radix + d)) as [Ho2|Ho2].
      * destruct (digits_value_go radix r (val * radix + d) true) as [m|] eqn:E; [|reflexivity].
        apply digits_value_go_ge in E; [|exact Hr].
        destruct (N.leb_spec m U128_MAX); [lia|reflexivity].
      * apply IH. exact Ho2.
Qed.

Lemma U128_MAX_pos : 0 <= U128_MAX. Proof. lia. Qed.

Lemma parse_digits_u128_spec radix ds : 1 <= radix ->
  parse_digits_u128 ds radix =
  match digits_value radix ds with
  | Some m => if m <=? U128_MAX then Some m else None
  | None => None
  end.
Proof. intros Hr. unfold parse_digits_u128, digits_value. apply parse_digits_u128_go_spec; [exact Hr|lia]. Qed.

(* ---- the signed decimal loop (negative accumulation) ---- *)
Lemma digit_val_10 c :
  digit_val 10 c = if (48 <=? c) && (c <=? 57) then Some (c - 48) else None.
Proof.
  unfold digit_val.
  destruct ((48 <=? c) && (c <=? 57)) eqn:E.
  - destruct (N.leb_spec 10 (c - 48)); [lia|reflexivity].
  - replace (10 <? 10) with false by reflexivity.
    rewrite !Bool.andb_false_r. reflexivity.
Qed.

Lemma I128_bounds : (I128_MIN = - 2 ^ 127 /\ I128_MAX = 2 ^ 127 - 1)%Z.
Proof. split; reflexivity. Qed.

Lemma parse_decimal_signed_go_neg ds :
  forall val saw, (I128_MIN <= val <= 0)%Z ->
  parse_decimal_signed_go true ds val saw =
  match digits_value_go 10 ds (Z.to_N (- val)) saw with
  | Some m => if (I128_MIN <=? - Z.of_N m)%Z then Some (- Z.of_N m)%Z else None
  | None => None
  end.
Proof.
  destruct I128_bounds as [Hmin Hmax].
  induction ds as [|c r IH]; intros val saw Hv;
    cbn [parse_decimal_signed_go digits_value_go].
  - destruct saw; [|reflexivity].
    replace (- Z.of_N (Z.to_N (- val)))%Z with val by lia.
    destruct (Z.leb_spec I128_MIN val); [reflexivity|lia].
  - destruct (c =? 95); [apply IH; exact Hv|].
    rewrite digit_val_10.
    destruct ((48 <=? c) && (c <=? 57)) eqn:E; [|reflexivity].
    assert (Hd : (0 <= Z.of_N (c - 48) <= 9)%Z) by lia.
    set (d := Z.of_N (c - 48)) in *.
    replace (Z.to_N (- val) * 10 + (c - 48)) with (Z.to_N (- (val * 10 - d)))%Z by lia.
    destruct (((val * 10 <? I128_MIN) || (I128_MAX <? val * 10))%Z) eqn:E1.
    + destruct (digits_value_go 10 r (Z.to_N (- (val * 10 - d))) true) as [m|] eqn:Em; [|reflexivity].
      apply digits_value_go_ge in Em; [|lia].
      destruct (Z.leb_spec I128_MIN (- Z.of_N m)); [lia|reflexivity].
    + destruct (((val * 10 - d <? I128_MIN) || (I128_MAX <? val * 10 - d))%Z) eqn:E2.
      * destruct (digits_value_go 10 r (Z.to_N (- (val * 10 - d))) true) as [m|] eqn:Em; [|reflexivity].
        apply digits_value_go_ge in Em; [|lia].
        destruct (Z.leb_spec I128_MIN (- Z.of_N m)); [lia|reflexivity].
      * apply IH. lia.
Qed.

Lemma parse_decimal_signed_go_pos ds :
  forall val saw, (0 <= val <= I128_MAX)%Z ->
  parse_decimal_signed_go false ds val saw =
  match digits_value_go 10 ds (Z.to_N val) saw with
  | Some m => if (Z.of_N m <=? I128_MAX)%Z then Some (Z.of_N m) else None
  | None => None
  end.
Proof.
  destruct I128_bounds as [Hmin Hmax].
  induction ds as [|c r IH]; intros val saw Hv;
    cbn [parse_decimal_signed_go digits_value_go].
  - destruct saw; [|reflexivity].
    replace (Z.of_N (Z.to_N val)) with val by lia.
    destruct (Z.leb_spec val I128_MAX); [reflexivity|lia].
  - destruct (c =? 95); [apply IH; exact Hv|].
    rewrite digit_val_10.
    destruct ((48 <=? c) && (c <=? 57)) eqn:E; [|reflexivity].
    assert (Hd : (0 <= Z.of_N (c - 48) <= 9)%Z) by lia.
    set (d := Z.of_N (c - 48)) in *.
    replace (Z.to_N val * 10 + (c - 48)) with (Z.to_N (val * 10 + d))%Z by lia.
    destruct (((val * 10 <? I128_MIN) || (I128_MAX <? val * 10))%Z) eqn:E1.
    + destruct (digits_value_go 10 r (Z.to_N (val * 10 + d)) true) as [m|] eqn:Em; [|reflexivity].
      apply digits_value_go_ge in Em; [|lia].
      destruct (Z.leb_spec (Z.of_N m) I128_MAX); [lia|reflexivity].
    + destruct (((val * 10 + d <? I128_MIN) || (I128_MAX <? val * 10 + d))%Z) eqn:E2.
      * destruct (digits_value_go 10 r (Z.to_N (val * 10 + d)) true) as [m|] eqn:Em; [|reflexivity].
        apply digits_value_go_ge in Em; [|lia].
        destruct (Z.leb_spec (Z.of_N m) I128_MAX); [lia|reflexivity].
      * apply IH. lia.
Qed.

(* ---- radix_and_digits only yields the four radices ---- *)
Lemma radix_and_digits_radix legacy rest :
  let r := fst (radix_and_digits legacy rest) in r = 2 \/ r = 8 \/ r = 10 \/ r = 16.
Proof.
  unfold radix_and_digits.
  repeat match goal with
         | |- context [match ?x with _ => _ end] => destruct x; cbn [fst]; auto
         | |- context [if ?x then _ else _] => destruct x; cbn [fst]; auto
         end.
Qed.

Lemma smin_smax_128 bits : width_ok bits ->
  (I128_MIN <= smin bits /\ smax bits <= I128_MAX /\ smin bits < 0 /\ 0 < smax bits)%Z.
Proof.
  intros [->|[->|[->|[->| ->]]]]; unfold smin, smax, I128_MIN, I128_MAX; cbn; lia.
Qed.

Lemma umax_128 bits : width_ok bits -> umax bits <= U128_MAX.
Proof. intros [->|[->|[->|[->| ->]]]]; unfold umax, U128_MAX; cbn; lia. Qed.

(* ---- the two theorems ---- *)
Theorem parse_int_unsigned_exact bits s legacy : width_ok bits ->
  parse_int_unsigned bits s legacy = spec_int_unsigned bits s legacy.
Proof.
  intros Hw. pose proof (umax_128 bits Hw) as Hu.
  unfold parse_int_unsigned, spec_int_unsigned.
  destruct (starts_with [45] (trim s)); [reflexivity|].
  set (rest := match strip_prefix [43] (trim s) with Some r => r | None => trim s end).
  pose proof (radix_and_digits_radix legacy rest) as Hr.
  destruct (radix_and_digits legacy rest) as [radix digits]. cbn [fst] in Hr.
  assert (H1 : 1 <= radix) by lia.
  assert (E : (if radix =? 10 then parse_decimal_unsigned_u128 digits else parse_digits_u128 digits radix)
              = parse_digits_u128 digits radix).
  { destruct (N.eqb_spec radix 10) as [->|]; reflexivity. }
  rewrite E, (parse_digits_u128_spec radix digits H1).
  destruct (digits_value radix digits) as [m|]; [|reflexivity].
  unfold fits_unsigned.
  destruct (N.leb_spec m U128_MAX); destruct (N.leb_spec m (umax bits)); try reflexivity; lia.
Qed.

Theorem parse_int_signed_exact bits s legacy : width_ok bits ->
  parse_int_signed bits s legacy = spec_int_signed bits s legacy.
Proof.
  intros Hw. destruct (smin_smax_128 bits Hw) as (Hlo & Hhi & Hneg & Hpos).
  destruct I128_bounds as [Hmin Hmax].
  unfold parse_int_signed, spec_int_signed.
  destruct (sign_split (trim s)) as [neg rest].
  pose proof (radix_and_digits_radix legacy rest) as Hr.
  destruct (radix_and_digits legacy rest) as [radix digits]. cbn [fst] in Hr.
  assert (H1 : 1 <= radix) by lia.
  unfold fits_signed.
  destruct (N.eqb_spec radix 10) as [->|Hne].
  - unfold parse_decimal_signed_i128, digits_value.
    destruct neg.
    + rewrite parse_decimal_signed_go_neg by lia. cbn [Z.opp Z.to_N].
      destruct (digits_value_go 10 digits 0 false) as [m|]; [|reflexivity].
      destruct (Z.leb_spec I128_MIN (- Z.of_N m)).
      * reflexivity.
      * destruct (Z.leb_spec (smin bits) (- Z.of_N m)); [lia|reflexivity].
    + rewrite parse_decimal_signed_go_pos by lia. cbn [Z.to_N].
      destruct (digits_value_go 10 digits 0 false) as [m|]; [|reflexivity].
      destruct (Z.leb_spec (Z.of_N m) I128_MAX).
      * reflexivity.
      * destruct (Z.leb_spec (Z.of_N m) (smax bits)); [lia|].
        rewrite Bool.andb_false_r. reflexivity.
  - rewrite (parse_digits_u128_spec radix digits H1).
    destruct (digits_value radix digits) as [m|]; [|reflexivity].
    destruct (N.leb_spec m U128_MAX) as [Hm|Hm].
    + destruct neg.
      * destruct (Z.leb_spec I128_MIN (- Z.of_N m)); [reflexivity|].
        destruct (Z.leb_spec (smin bits) (- Z.of_N m)); [lia|reflexivity].
      * destruct (Z.leb_spec (Z.of_N m) I128_MAX); [reflexivity|].
        destruct (Z.leb_spec (Z.of_N m) (smax bits)); [lia|].
        rewrite Bool.andb_false_r. reflexivity.
    + assert (Hbig : (2 ^ 128 <= Z.of_N m)%Z) by (unfold U128_MAX in Hm; lia).
      destruct neg.
      * destruct (Z.leb_spec (smin bits) (- Z.of_N m)); [lia|reflexivity].
      * destruct (Z.leb_spec (Z.of_N m) (smax bits)); [lia|].
        rewrite Bool.andb_false_r. reflexivity.
Qed.
