(* ThreadState.v -- C15: what a call observes does not depend on the thread-local state it starts
   from, and it leaves that state exactly as it found it -- also when it fails or panics half-way,
   and also when it runs nested inside another call. *)
From SS Require Import Model.ThreadState.
From Coq Require Import Lia.
Local Open Scope N_scope.

(* a scoped call: observations are those of running the body from the empty state; the caller's
   state is untouched -- for ANY state, body and fuel *)
Lemma run_scope_step f body rest s obs :
  run (S f) (AScope body :: rest) s obs = run f rest s (snd (run f body tl_empty obs)).
Proof. cbn [run]. destruct (run f body tl_empty obs) as [[ok s'] o']. reflexivity. Qed.

Theorem scope_isolated fuel body s obs :
  run (S (S fuel)) [AScope body] s obs =
    (true, s, snd (run (S fuel) body tl_empty obs)).
Proof. rewrite run_scope_step. reflexivity. Qed.

Corollary observations_independent_of_state fuel body s1 s2 obs :
  snd (run (S (S fuel)) [AScope body] s1 obs) = snd (run (S (S fuel)) [AScope body] s2 obs)
  /\ snd (fst (run (S (S fuel)) [AScope body] s1 obs)) = s1
  /\ snd (fst (run (S (S fuel)) [AScope body] s2 obs)) = s2.
Proof. rewrite !scope_isolated. cbn. auto. Qed.

(* the guards are balanced: whatever a list of actions does -- including an abort in the middle, at
   any nesting depth -- the context stack and the fallback location are afterwards what they were *)
Theorem guards_balanced : forall fuel acts s obs,
  let '(ok, s', o) := run fuel acts s obs in
  tl_stack s' = tl_stack s /\ tl_fb s' = tl_fb s.
Proof.
  induction fuel as [|f IH]; intros acts s obs.
  - cbn. auto.
  - cbn [run]. destruct acts as [|a rest]; [auto|].
    destruct a as [id v|id|id body|line body| |body|].
    + (* store *) specialize (IH rest (mkTl ((id, v) :: remove_n id (tl_store s)) (tl_stack s) (tl_prog s) (tl_fb s)) obs).
      destruct (run f rest _ obs) as [[ok s'] o]. cbn in IH. exact IH.
    + specialize (IH rest s (obs ++ [obs_lookup s id])). destruct (run f rest s _) as [[ok s'] o]. exact IH.
    + (* anchor *)
      match goal with |- context [run f body ?s0 ?o0] =>
        pose proof (IH body s0 o0) as Hb; destruct (run f body s0 o0) as [[okb sb] ob] end.
      cbn [tl_stack tl_fb] in Hb. destruct Hb as [Hst Hfb].
      destruct okb.
      * match goal with |- context [run f rest ?s1 ob] =>
          pose proof (IH rest s1 ob) as Hr; destruct (run f rest s1 ob) as [[okr sr] orr] end.
        cbn [tl_stack tl_fb] in Hr. rewrite Hst in Hr. cbn [List.tl] in Hr. rewrite Hfb in Hr. exact Hr.
      * cbn [tl_stack tl_fb]. rewrite Hst, Hfb. cbn [List.tl]. auto.
    + (* fallback *)
      match goal with |- context [run f body ?s0 obs] =>
        pose proof (IH body s0 obs) as Hb; destruct (run f body s0 obs) as [[okb sb] ob] end.
      cbn [tl_stack tl_fb] in Hb. destruct Hb as [Hst Hfb].
      destruct okb.
      * match goal with |- context [run f rest ?s1 ob] =>
          pose proof (IH rest s1 ob) as Hr; destruct (run f rest s1 ob) as [[okr sr] orr] end.
        cbn [tl_stack tl_fb] in Hr. rewrite Hst in Hr. exact Hr.
      * cbn [tl_stack tl_fb]. rewrite Hst. auto.
    + specialize (IH rest s (obs ++ [obs_fb s])). destruct (run f rest s _) as [[ok s'] o]. exact IH.
    + (* nested scope *)
      destruct (run f body tl_empty obs) as [[okb sb] ob].
      specialize (IH rest s ob). destruct (run f rest s ob) as [[ok s'] o]. exact IH.
    + auto.
Qed.

(* a sequence of calls on one thread: every call starts from the empty state, so each call's
   observations are those of that call alone *)
Definition CALL_FUEL : nat := 198.
Definition run_call (c : list act) (s : tls) : list N * tls :=
  (snd (run (S (S CALL_FUEL)) [AScope c] s []), snd (fst (run (S (S CALL_FUEL)) [AScope c] s []))).

Theorem call_leaves_state s c : snd (run_call c s) = s.
Proof. unfold run_call. rewrite scope_isolated. reflexivity. Qed.

Theorem call_result_depends_only_on_the_call s1 s2 c : fst (run_call c s1) = fst (run_call c s2).
Proof. unfold run_call. rewrite !scope_isolated. reflexivity. Qed.

Fixpoint run_seq (calls : list (list act)) (s : tls) : list (list N) :=
  match calls with
  | [] => []
  | c :: r => fst (run_call c s) :: run_seq r (snd (run_call c s))
  end.

Theorem every_call_in_a_sequence_is_as_on_a_fresh_thread : forall calls s,
  run_seq calls s = map (fun c => fst (run_call c tl_empty)) calls.
Proof.
  induction calls as [|c r IH]; intros s; [reflexivity|].
  cbn [run_seq map]. rewrite call_leaves_state, IH. f_equal. apply call_result_depends_only_on_the_call.
Qed.
