(* ScalarsB64.v -- C06: `!!binary` payloads are strict canonical base64.  The decoder of base64.rs accepts
   exactly the RFC 4648 encodings (white space aside): it inverts the reference encoder on every byte string,
   and whatever it accepts IS the reference encoding of what it returns -- no second spelling of any payload
   (non-zero padding bits, missing or surplus padding, padding inside) is accepted. *)
From SS Require Import Model.Scalars.
From Coq Require Import Lia ZifyBool ZifyN.
Local Open Scope N_scope.
Ltac Zify.zify_post_hook ::= Z.div_mod_to_equations.

(* ---- the reference encoder (RFC 4648, standard alphabet, padded) ---- *)
Definition b64_char (v : N) : N :=
  if v <? 26 then 65 + v else if v <? 52 then 97 + (v - 26) else if v <? 62 then 48 + (v - 52)
  else if v =? 62 then 43 else 47.

Fixpoint b64_encode (bs : list N) : list N :=
  match bs with
  | a :: b :: c :: r =>
    b64_char (a / 4) :: b64_char ((a mod 4) * 16 + b / 16) :: b64_char ((b mod 16) * 4 + c / 64) :: b64_char (c mod 64)
    :: b64_encode r
  | [a; b] => [b64_char (a / 4); b64_char ((a mod 4) * 16 + b / 16); b64_char ((b mod 16) * 4); 61]
  | [a] => [b64_char (a / 4); b64_char ((a mod 4) * 16); 61; 61]
  | [] => []
  end.

Definition bytes_ok (bs : list N) : Prop := Forall (fun b => b < 256) bs.

Lemma char_val v : v < 64 -> b64_val (b64_char v) = Some v /\ (b64_char v =? 61) = false.
Proof.
  intros H. unfold b64_char, b64_val.
  destruct (N.ltb_spec v 26); [|destruct (N.ltb_spec v 52); [|destruct (N.ltb_spec v 62); [|destruct (N.eqb_spec v 62)]]].
  - replace ((65 <=? 65 + v) && (65 + v <=? 90)) with true by lia. split; [f_equal; lia|lia].
  - replace ((65 <=? 97 + (v - 26)) && (97 + (v - 26) <=? 90)) with false by lia.
    replace ((97 <=? 97 + (v - 26)) && (97 + (v - 26) <=? 122)) with true by lia. split; [f_equal; lia|lia].
  - replace ((65 <=? 48 + (v - 52)) && (48 + (v - 52) <=? 90)) with false by lia.
    replace ((97 <=? 48 + (v - 52)) && (48 + (v - 52) <=? 122)) with false by lia.
    replace ((48 <=? 48 + (v - 52)) && (48 + (v - 52) <=? 57)) with true by lia. split; [f_equal; lia|lia].
  - subst v. split; reflexivity.
  - assert (v = 63) by lia. subst v. split; reflexivity.
Qed.

Lemma val_char c v : b64_val c = Some v -> b64_char v = c /\ v < 64 /\ (c =? 61) = false.
Proof.
  unfold b64_val, b64_char.
  destruct ((65 <=? c) && (c <=? 90)) eqn:E1.
  { intros H; inversion H; subst. replace (c - 65 <? 26) with true by lia. repeat split; lia. }
  destruct ((97 <=? c) && (c <=? 122)) eqn:E2.
  { intros H; inversion H; subst. replace (c - 97 + 26 <? 26) with false by lia. replace (c - 97 + 26 <? 52) with true by lia. repeat split; lia. }
  destruct ((48 <=? c) && (c <=? 57)) eqn:E3.
  { intros H; inversion H; subst. replace (c - 48 + 52 <? 26) with false by lia. replace (c - 48 + 52 <? 52) with false by lia.
    replace (c - 48 + 52 <? 62) with true by lia. repeat split; lia. }
  destruct (N.eqb_spec c 43); [intros H; inversion H; subst; repeat split; reflexivity|].
  destruct (N.eqb_spec c 47); [intros H; inversion H; subst; repeat split; reflexivity|discriminate].
Qed.

(* ---- decoding what the encoder wrote ---- *)
Lemma chunk3 last a b c : a < 256 -> b < 256 -> c < 256 ->
  b64_chunk last (b64_char (a / 4)) (b64_char ((a mod 4) * 16 + b / 16)) (b64_char ((b mod 16) * 4 + c / 64)) (b64_char (c mod 64))
  = Some [a; b; c].
Proof.
  intros Ha Hb Hc.
  destruct (char_val (a / 4) ltac:(lia)) as [V0 E0].
  destruct (char_val ((a mod 4) * 16 + b / 16) ltac:(lia)) as [V1 E1].
  destruct (char_val ((b mod 16) * 4 + c / 64) ltac:(lia)) as [V2 E2].
  destruct (char_val (c mod 64) ltac:(lia)) as [V3 E3].
  unfold b64_chunk, pad_count. rewrite E3, E2, V0, V1, V2, V3. cbn [N.ltb N.compare andb negb N.eqb].
  f_equal. f_equal; [lia|]. f_equal; [lia|]. f_equal. lia.
Qed.

Lemma chunk2 a b : a < 256 -> b < 256 ->
  b64_chunk true (b64_char (a / 4)) (b64_char ((a mod 4) * 16 + b / 16)) (b64_char ((b mod 16) * 4)) 61 = Some [a; b].
Proof.
  intros Ha Hb.
  destruct (char_val (a / 4) ltac:(lia)) as [V0 E0].
  destruct (char_val ((a mod 4) * 16 + b / 16) ltac:(lia)) as [V1 E1].
  destruct (char_val ((b mod 16) * 4) ltac:(lia)) as [V2 E2].
  unfold b64_chunk, pad_count. rewrite E2, V0, V1, V2. cbn [N.eqb Pos.eqb N.ltb N.compare Pos.compare Pos.compare_cont andb negb].
  replace (((b mod 16) * 4) mod 4 =? 0) with true by lia. cbn [negb andb].
  f_equal. f_equal; [lia|]. f_equal. lia.
Qed.

Lemma chunk1 a : a < 256 ->
  b64_chunk true (b64_char (a / 4)) (b64_char ((a mod 4) * 16)) 61 61 = Some [a].
Proof.
  intros Ha.
  destruct (char_val (a / 4) ltac:(lia)) as [V0 E0].
  destruct (char_val ((a mod 4) * 16) ltac:(lia)) as [V1 E1].
  unfold b64_chunk, pad_count. rewrite E1, V0, V1. cbn [N.eqb Pos.eqb N.ltb N.compare Pos.compare Pos.compare_cont andb negb].
  replace (((a mod 4) * 16) mod 16 =? 0) with true by lia. cbn [negb andb].
  f_equal. f_equal. lia.
Qed.

Theorem decode_encode : forall bs, bytes_ok bs -> b64_chunks (b64_encode bs) = Some bs.
Proof.
  fix IH 1. intros bs H. destruct bs as [|a [|b [|c r]]].
  - reflexivity.
  - inversion H; subst. cbn [b64_encode b64_chunks]. rewrite chunk1 by assumption. reflexivity.
  - inversion H as [|? ? Ha H2]; subst. inversion H2 as [|? ? Hb _]; subst. cbn [b64_encode b64_chunks]. rewrite chunk2 by assumption. reflexivity.
  - inversion H as [|? ? Ha H2]; subst. inversion H2 as [|? ? Hb H3]; subst. inversion H3 as [|? ? Hc H4]; subst.
    cbn [b64_encode b64_chunks]. rewrite chunk3 by assumption. rewrite (IH r H4). reflexivity.
Qed.

(* ---- whatever the decoder accepts is the reference encoding of what it returns ---- *)
Lemma chunk_canonical last c0 c1 c2 c3 o :
  b64_chunk last c0 c1 c2 c3 = Some o ->
  bytes_ok o /\ b64_encode o = [c0; c1; c2; c3] /\ (length o = 3%nat \/ last = true) /\ o <> [].
Proof.
  unfold b64_chunk. set (pad := pad_count c0 c1 c2 c3).
  destruct ((0 <? pad) && negb last) eqn:Hl; [discriminate|].
  destruct (b64_val c0) as [a|] eqn:A; [|discriminate]. destruct (b64_val c1) as [b|] eqn:B; [|discriminate].
  destruct (val_char _ _ A) as (CA & La & Na). destruct (val_char _ _ B) as (CB & Lb & Nb).
  assert (Hpad : pad = if c3 =? 61 then (if c2 =? 61 then 2 else 1) else 0).
  { unfold pad, pad_count. rewrite Nb. destruct (c3 =? 61); [destruct (c2 =? 61)|]; reflexivity. }
  destruct (c3 =? 61) eqn:E3.
  - destruct (c2 =? 61) eqn:E2.
    + (* two padding characters *)
      rewrite Hpad. cbn [N.ltb N.compare Pos.compare Pos.compare_cont N.eqb Pos.eqb andb].
      destruct (b mod 16 =? 0) eqn:Eb; [|discriminate]. cbn [negb andb].
      intros H; inversion H; subst o; clear H.
      assert (last = true) by (rewrite Hpad in Hl; destruct last; [reflexivity|discriminate]).
      apply N.eqb_eq in E2, E3. subst c2 c3.
      split; [repeat constructor; lia|]. split; [|split; [right; assumption|discriminate]].
      cbn [b64_encode]. f_equal; [rewrite <- CA; f_equal; lia|]. f_equal. rewrite <- CB. f_equal. lia.
    + (* one padding character *)
      rewrite Hpad. cbn [N.ltb N.compare Pos.compare Pos.compare_cont N.eqb Pos.eqb andb].
      destruct (b64_val c2) as [c|] eqn:C; [|discriminate]. destruct (val_char _ _ C) as (CC & Lc & Nc).
      destruct (c mod 4 =? 0) eqn:Ec; [|discriminate]. cbn [negb andb].
      intros H; inversion H; subst o; clear H.
      assert (last = true) by (rewrite Hpad in Hl; destruct last; [reflexivity|discriminate]).
      apply N.eqb_eq in E3. subst c3.
      split; [repeat constructor; lia|]. split; [|split; [right; assumption|discriminate]].
      cbn [b64_encode]. f_equal; [rewrite <- CA; f_equal; lia|]. f_equal; [rewrite <- CB; f_equal; lia|]. f_equal. rewrite <- CC. f_equal. lia.
  - (* no padding *)
    rewrite Hpad. destruct (c2 =? 61) eqn:E2; [cbn; discriminate|].
    destruct (b64_val c2) as [c|] eqn:C; [|discriminate]. destruct (val_char _ _ C) as (CC & Lc & Nc).
    cbn [N.eqb]. destruct (b64_val c3) as [d|] eqn:D; [|discriminate]. destruct (val_char _ _ D) as (CD & Ld & Nd).
    cbn [andb]. intros H; inversion H; subst o; clear H.
    split; [repeat constructor; lia|]. split; [|split; [left; reflexivity|discriminate]].
    cbn [b64_encode]. f_equal; [rewrite <- CA; f_equal; lia|]. f_equal; [rewrite <- CB; f_equal; lia|].
    f_equal; [rewrite <- CC; f_equal; lia|]. f_equal. rewrite <- CD. f_equal. lia.
Qed.

Lemma encode_app3 a b c r : b64_encode ([a; b; c] ++ r) =
  [b64_char (a / 4); b64_char ((a mod 4) * 16 + b / 16); b64_char ((b mod 16) * 4 + c / 64); b64_char (c mod 64)] ++ b64_encode r.
Proof. reflexivity. Qed.

Theorem accepted_is_canonical : forall cs d, b64_chunks cs = Some d -> bytes_ok d /\ b64_encode d = cs.
Proof.
  fix IH 1. intros cs d H. destruct cs as [|c0 [|c1 [|c2 [|c3 r]]]]; cbn [b64_chunks] in H; try discriminate.
  - inversion H. split; [constructor|reflexivity].
  - destruct (b64_chunk (match r with [] => true | _ => false end) c0 c1 c2 c3) as [o|] eqn:E; [|discriminate].
    destruct (b64_chunks r) as [o'|] eqn:R; [|discriminate]. inversion H; subst d; clear H.
    destruct (chunk_canonical _ _ _ _ _ _ E) as (Bo & Eo & Lo & No).
    destruct (IH r o' R) as (Bo' & Eo').
    split; [apply Forall_app; split; assumption|].
    destruct Lo as [L3|Ll].
    + destruct o as [|x [|y [|z [|w t]]]]; try discriminate. rewrite encode_app3, Eo'. cbn [b64_encode] in Eo.
      inversion Eo. reflexivity.
    + destruct r as [|q r']; [|discriminate]. cbn [b64_chunks] in R. inversion R; subst o'. rewrite app_nil_r. exact Eo.
Qed.

(* white space aside, a payload has exactly one accepted spelling *)
Corollary binary_payload_is_strict_canonical s d :
  decode_base64_yaml s = Some d ->
  bytes_ok d /\ b64_encode d = filter (fun b => negb (is_ascii_ws b)) s.
Proof. unfold decode_base64_yaml. apply accepted_is_canonical. Qed.

Lemma encode_no_ws : forall bs, filter (fun b => negb (is_ascii_ws b)) (b64_encode bs) = b64_encode bs.
Proof.
  assert (C : forall v, is_ascii_ws (b64_char v) = false).
  { intros v. unfold b64_char, is_ascii_ws.
    destruct (v <? 26); [lia|]. destruct (v <? 52); [lia|]. destruct (v <? 62); [lia|]. destruct (v =? 62); reflexivity. }
  fix IH 1. intros bs. destruct bs as [|a [|b [|c r]]]; cbn [b64_encode filter]; rewrite ?C; cbn [negb]; try reflexivity.
  rewrite (IH r). reflexivity.
Qed.

Corollary every_payload_is_read_back bs : bytes_ok bs -> decode_base64_yaml (b64_encode bs) = Some bs.
Proof. intros H. unfold decode_base64_yaml. rewrite encode_no_ws. apply decode_encode. exact H. Qed.
