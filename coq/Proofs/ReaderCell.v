(* ReaderCell.v -- the byte -> char re-assembler never turns a reported read error into a clean end
   of input, and never yields a character beyond the size cap (C10). *)
From SS Require Import Model.Reader.
From Coq Require Import Lia ZifyBool ZifyN ZifyNat.
Local Open Scope N_scope.

(* a reported error (any kind but Interrupted) at the next read leaves that error in the cell *)
Lemma reported_error_sets_cell mb k r total cell :
  k <> KInterrupted ->
  chunked_next mb (mkChunked (RFail k :: r) total cell) = (None, mkChunked r total (Some k)).
Proof.
  intros Hk. unfold chunked_next. cbn [ck_script length read_first script_read].
  destruct k; try contradiction; reflexivity.
Qed.

(* true end of input: no error is invented and the cell is left as it was *)
Lemma end_of_input_is_clean mb total cell :
  chunked_next mb (mkChunked [] total cell) = (None, mkChunked [] total cell) /\
  forall r, chunked_next mb (mkChunked (REof :: r) total cell) = (None, mkChunked (REof :: r) total cell).
Proof. split; [|intros r]; reflexivity. Qed.

(* the end of input inside a multi-byte character is an error *)
Lemma eof_inside_character_is_error mb b total cell :
  lead_len b = Some 2%nat \/ lead_len b = Some 3%nat \/ lead_len b = Some 4%nat ->
  snd (chunked_next mb (mkChunked [RChunk [b]] total cell)) = mkChunked [] total (Some KUnexpectedEof).
Proof.
  intros H. unfold chunked_next. cbn [ck_script length read_first script_read firstn skipn].
  destruct H as [H|[H|H]]; rewrite H; reflexivity.
Qed.

(* the cap: a character is yielded only if the running total stays within the cap, and the total
   the iterator keeps never exceeds it *)
Lemma cap_respected lim c ch c' :
  lim <= USIZE_MAX_R -> ck_total c <= lim ->
  chunked_next (Some lim) c = (Some ch, c') -> ck_total c' <= lim /\ ck_total c <= ck_total c'.
Proof.
  intros Hu Hl. unfold chunked_next.
  destruct (read_first _ _) as [[b| |k] s1]; try discriminate.
  destruct (lead_len b) as [needed|] eqn:Hn; [|discriminate].
  destruct (read_rest _ _ _ _) as [[bytes|k] s2]; [|discriminate].
  assert (Hpos : (1 <= needed)%nat).
  { unfold lead_len in Hn.
    destruct (b <? 128); [inversion Hn; lia|].
    destruct (b / 32 =? 6); [inversion Hn; lia|].
    destruct (b / 16 =? 14); [inversion Hn; lia|].
    destruct (b / 8 =? 30); [inversion Hn; lia|discriminate]. }
  unfold sat_add_r.
  destruct (N.ltb_spec USIZE_MAX_R (ck_total c + N.of_nat needed)).
  - destruct (N.ltb_spec lim USIZE_MAX_R); [discriminate|].
    destruct (utf8_dec bytes) as [[|x [|y l]]|]; try discriminate. intros H'; inversion H'; subst. cbn. unfold USIZE_MAX_R in *. lia.
  - destruct (N.ltb_spec lim (ck_total c + N.of_nat needed)); [discriminate|].
    destruct (utf8_dec bytes) as [[|x [|y l]]|]; try discriminate. intros H'; inversion H'; subst. cbn. lia.
Qed.

