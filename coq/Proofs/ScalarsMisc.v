(* ScalarsMisc.v -- decision-table facts about the scalar arms of the deserializer. *)
From SS Require Import Model.Scalars.
From Coq Require Import Lia ZifyBool ZifyN.
Local Open Scope N_scope.

Definition s_of (l : list N) : str := l.

(* The literal tables the translator extracted from parse_scalars.rs are the documented ones. *)
Lemma bool_true_literals_pinned :
  BOOL_TRUE_LITERALS = [[116; 114; 117; 101]; [121; 101; 115]; [121]; [111; 110]].
Proof. reflexivity. Qed.
Lemma bool_false_literals_pinned :
  BOOL_FALSE_LITERALS = [[102; 97; 108; 115; 101]; [110; 111]; [110]; [111; 102; 102]].
Proof. reflexivity. Qed.
Lemma float_words_pinned :
  FLOAT_NAN_WORDS = [[46; 110; 97; 110]; [43; 46; 110; 97; 110]; [45; 46; 110; 97; 110]] /\
  FLOAT_INF_WORDS = [[46; 105; 110; 102]; [43; 46; 105; 110; 102]] /\
  FLOAT_NEG_INF_WORDS = [[45; 46; 105; 110; 102]].
Proof. repeat split; reflexivity. Qed.

Lemma bool_table s b :
  parse_yaml11_bool s = Some b <->
  (b = true /\ str_in_nocase (trim s) BOOL_TRUE_LITERALS = true) \/
  (b = false /\ str_in_nocase (trim s) BOOL_TRUE_LITERALS = false
             /\ str_in_nocase (trim s) BOOL_FALSE_LITERALS = true).
Proof.
  unfold parse_yaml11_bool.
  destruct (str_in_nocase (trim s) BOOL_TRUE_LITERALS);
    [|destruct (str_in_nocase (trim s) BOOL_FALSE_LITERALS)];
    split; intros H;
    repeat match goal with
           | H : _ \/ _ |- _ => destruct H
           | H : _ /\ _ |- _ => destruct H
           | H : Some _ = Some _ |- _ => inversion H; clear H; subst
           end; try discriminate; subst; auto.
Qed.

(* strict_booleans: only true/false (any ASCII case, trimmed) are booleans *)
Lemma strict_bool c ev b : strict_booleans c = true ->
  deser_scalar c TgBool ev = RBool b ->
  (b = true /\ eq_ignore_ascii_case (trim (sv_value ev)) s_true = true) \/
  (b = false /\ eq_ignore_ascii_case (trim (sv_value ev)) s_false = true).
Proof.
  intros Hs. cbn [deser_scalar]. rewrite Hs.
  destruct (eq_ignore_ascii_case (trim (sv_value ev)) s_true) eqn:E1.
  - intros H; inversion H; auto.
  - destruct (eq_ignore_ascii_case (trim (sv_value ev)) s_false) eqn:E2.
    + intros H; inversion H; auto.
    + discriminate.
Qed.

Definition stringish_tag (t : N) : Prop := t = TAG_None \/ t = TAG_String \/ t = TAG_Other.

(* A quoted (or block) scalar with a string-compatible tag is the string itself for String
   targets and for untyped targets, under every option vector: never null, number or bool. *)
Lemma quoted_is_string c ev :
  sv_style ev <> Plain -> stringish_tag (sv_tag ev) ->
  deser_scalar c TgString ev = RStr (sv_value ev) /\
  deser_scalar c TgAny ev = RStr (sv_value ev) /\
  deser_scalar c TgStr ev = RStr (sv_value ev) /\
  deser_scalar c (TgOption TgString) ev =
    (if negb (sv_tag ev =? TAG_String) && match sv_value ev with [] => negb (is_quoted (sv_style ev)) | _ => false end
     then RNone else RSome (RStr (sv_value ev))).
Proof.
  intros Hst Htag. destruct ev as [value st tag]. cbn [sv_style sv_tag sv_value] in *.
  destruct c as [lo sb ib ns].
  destruct st; [congruence| | | |];
    destruct Htag as [->|[->| ->]];
    (repeat split); destruct value as [|v0 value]; destruct ns; destruct ib; vm_compute; reflexivity.
Qed.

Lemma option_unfold c t ev :
  deser_scalar c (TgOption t) ev =
  if sv_tag ev =? TAG_Null then RNone
  else if negb (sv_tag ev =? TAG_String) && negb (sv_tag ev =? TAG_Binary) && scalar_is_nullish_for_option (sv_value ev) (sv_style ev) then RNone
  else match deser_scalar c t ev with RErr e => RErr e | r => RSome r end.
Proof. reflexivity. Qed.

(* A scalar tagged !!str is the string itself -- never null, number or bool -- for string, optional and
   untyped targets, whatever its text and style and under every option vector (F60, fixed). *)
Lemma str_tagged_is_never_null c ev :
  sv_tag ev = TAG_String ->
  deser_scalar c TgString ev = RStr (sv_value ev) /\
  deser_scalar c TgStr ev = RStr (sv_value ev) /\
  deser_scalar c TgAny ev = RStr (sv_value ev) /\
  deser_scalar c (TgOption TgString) ev = RSome (RStr (sv_value ev)) /\
  deser_scalar c (TgOption TgAny) ev = RSome (RStr (sv_value ev)).
Proof.
  intros Htag. destruct ev as [value st tag]. cbn [sv_style sv_tag sv_value] in *. subst tag.
  destruct c as [lo sb ib ns].
  assert (HS : deser_scalar (mkCfg lo sb ib ns) TgString (mkScalar value st TAG_String) = RStr value).
  { cbn [deser_scalar sv_tag sv_style sv_value].
    replace (TAG_String =? TAG_String) with true by reflexivity.
    replace (TAG_String =? TAG_Null) with false by reflexivity.
    replace (TAG_String =? TAG_Binary) with false by reflexivity.
    rewrite !Bool.andb_false_r. cbn [negb andb orb].
    destruct ib; reflexivity. }
  assert (HA : deser_scalar (mkCfg lo sb ib ns) TgAny (mkScalar value st TAG_String) = RStr value).
  { cbn [deser_scalar]. unfold deserialize_any_scalar. cbn [sv_tag sv_style sv_value].
    replace (TAG_String =? TAG_String) with true by reflexivity.
    replace (TAG_String =? TAG_Null) with false by reflexivity.
    replace (TAG_String =? TAG_Binary) with false by reflexivity.
    cbn [negb andb orb]. rewrite !Bool.orb_true_r. cbn [andb].
    destruct ib; reflexivity. }
  repeat split.
  - exact HS.
  - cbn [deser_scalar sv_tag sv_style sv_value].
    replace (TAG_String =? TAG_String) with true by reflexivity.
    rewrite Bool.andb_false_r. reflexivity.
  - exact HA.
  - rewrite option_unfold, HS. reflexivity.
  - rewrite option_unfold, HA. reflexivity.
Qed.

Example str_tagged_example :
  deser_scalar (mkCfg false false false false) (TgOption TgString) (mkScalar s_null Plain TAG_String) = RSome (RStr s_null) /\
  deser_scalar (mkCfg false false false false) TgAny (mkScalar [126] Plain TAG_String) = RStr [126] /\
  deser_scalar (mkCfg false false false false) TgAny (mkScalar [126] Plain TAG_None) = RUnit.
Proof. repeat split; reflexivity. Qed.

(* Non-vacuity: a concrete quoted scalar that looks like null/number/bool *)
Example quoted_is_string_example :
  deser_scalar (mkCfg false false false true) TgAny (mkScalar s_null DoubleQuoted TAG_None) = RStr s_null /\
  deser_scalar (mkCfg false false false false) TgString (mkScalar [48] SingleQuoted TAG_None) = RStr [48].
Proof. split; reflexivity. Qed.

(* tags.rs: the table is a function (no key listed twice with different classes) and every
   class it yields is a declared SfTag code *)
Fixpoint keys_unique (tbl : list (str * N)) : bool :=
  match tbl with
  | [] => true
  | (k, _) :: r => negb (existsb (fun kv => str_eqb k (fst kv)) r) && keys_unique r
  end.
Lemma tag_table_wf :
  keys_unique TAG_LOOKUP = true /\ forallb (fun kv => snd kv <=? TAG_Other) TAG_LOOKUP = true.
Proof. split; vm_compute; reflexivity. Qed.

Lemma sftag_from_optional_total t : sftag_from_optional t <= TAG_Other.
Proof.
  unfold sftag_from_optional. destruct t as [k|]; [|vm_compute; discriminate].
  destruct (tag_lookup TAG_LOOKUP k) as [v|] eqn:E; [|lia].
  pose proof (proj2 tag_table_wf) as H. rewrite forallb_forall in H.
  assert (In_tbl : forall tbl, tag_lookup tbl k = Some v -> exists k', In (k', v) tbl).
  { induction tbl as [|[k' v'] r IH]; cbn; [discriminate|].
    destruct (str_eqb k k'); intros Hx.
    - inversion Hx; subst. eauto.
    - destruct (IH Hx) as [k2 H2]. eauto. }
  destruct (In_tbl _ E) as [k' Hin]. specialize (H _ Hin). cbn in H. lia.
Qed.
