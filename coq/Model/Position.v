(* Position.v -- what a parser mark denotes in the (BOM-stripped) text (C16).  The scanner keeps
   (index, line, col, byte) while consuming characters: index counts characters, byte counts UTF-8
   bytes, a line ends at LF, at a lone CR, and a CR LF pair counts once (at the LF). *)
From SS Require Export Model.Raw.
Local Open Scope N_scope.

Definition breaks_here (c : N) (rest : str) : bool :=
  (c =? 10) || ((c =? 13) && negb (match rest with 10 :: _ => true | _ => false end)).

Fixpoint scan (s : str) (n : nat) (line col byte : N) : N * N * N :=
  match n, s with
  | O, _ => (line, col, byte)
  | _, [] => (line, col, byte)
  | S n', c :: r =>
    if breaks_here c r then scan r n' (line + 1) 0 (byte + utf8_len c)
    else scan r n' line (col + 1) (byte + utf8_len c)
  end.

(* the mark of the position before character number idx (0-based) *)
Definition mark_at (text : str) (idx : N) : mark :=
  let '(l, c, b) := scan text (N.to_nat idx) 1 0 0 in mkMark idx l c (Some b).

Definition mark_eqb (a b : mark) : bool :=
  (mk_index a =? mk_index b) && (mk_line a =? mk_line b) && (mk_col a =? mk_col b)
  && match mk_byte a, mk_byte b with Some x, Some y => x =? y | None, None => true | _, _ => false end.

(* closed forms *)
Fixpoint count_breaks (s : str) : N :=
  match s with [] => 0 | c :: r => (if breaks_here c r then 1 else 0) + count_breaks r end.

(* characters after the last break of s (the whole of s if there is none); `following` is what comes
   after s in the text, needed to tell a lone CR from a CR LF split by the end of the prefix *)
Fixpoint col_of (s : str) (acc : N) : N :=
  match s with [] => acc | c :: r => if breaks_here c r then col_of r 0 else col_of r (acc + 1) end.
