(* Emit.v -- the regular block layout of the serializer under the default options (C13):
   sequences, mappings with plain keys and plain scalars.  The layout is described as a stream of
   column-carrying tokens (dash, key, leaf); `render` turns the stream into the emitted text and
   `parse` reads a stream back by the column discipline alone. *)
From SS Require Export Model.Text.
From Coq Require Export NArith List Bool.
Export ListNotations.
Local Open Scope nat_scope.

Inductive tree :=
| TSc (s : list N)
| TSeq (items : list tree)
| TMap (entries : list (list N * tree)).

Inductive leaf := LScalar (s : list N) | LEmptySeq | LEmptyMap.
Inductive tok :=
| KDash (col : nat)                  (* "- " at column col; its item starts at col + 2 *)
| KKey (col : nat) (k : list N)      (* "k:" at column col; its value lives at col + 2 *)
| KLeaf (col : nat) (l : leaf).

Definition tok_col (t : tok) : nat := match t with KDash c | KKey c _ | KLeaf c _ => c end.

Fixpoint toks (c : nat) (t : tree) {struct t} : list tok :=
  match t with
  | TSc s => [KLeaf c (LScalar s)]
  | TSeq [] => [KLeaf c LEmptySeq]
  | TSeq items =>
    (fix go (l : list tree) : list tok :=
       match l with [] => [] | x :: r => KDash c :: toks (c + 2) x ++ go r end) items
  | TMap [] => [KLeaf c LEmptyMap]
  | TMap entries =>
    (fix go (l : list (list N * tree)) : list tok :=
       match l with [] => [] | (k, v) :: r => KKey c k :: toks (c + 2) v ++ go r end) entries
  end.

(* ---- text ---- *)
Definition sp (n : nat) : list N := repeat 32%N n.
Definition leaf_text (l : leaf) : list N :=
  match l with LScalar s => s | LEmptySeq => [91; 93]%N | LEmptyMap => [123; 125]%N end.

(* `prev`: the token just before (None at the start of the document).  `blk` mirrors the serializer's
   last_value_was_block: raised when a non-empty block collection has just ended (the previous leaf lies more
   than one level deeper than the token that follows), lowered by every scalar, by an empty mapping, and by a
   block collection that starts as the value of a key; an empty sequence leaves it alone.  An empty mapping
   that is the value of a key while the flag is up goes to a line of its own. *)
Fixpoint render_go (blk : bool) (prev : option tok) (l : list tok) : list N :=
  match l with
  | [] => []
  | t :: r =>
    let inline_after_dash := match prev with Some (KDash _) => true | _ => false end in
    let blk1 :=
      match prev, t with
      | Some (KLeaf cp _), KKey ct _ | Some (KLeaf cp _), KDash ct => if Nat.ltb (ct + 2) cp then true else blk
      | _, _ => blk
      end in
    let lead := if inline_after_dash then [] else
                  match prev, t with
                  | Some (KKey _ _), KLeaf c LEmptyMap => if blk1 then 10%N :: sp c else [32%N]
                  | Some (KKey _ _), KLeaf _ _ => [32%N]                         (* "k: v" *)
                  | Some (KKey _ _), _ => 10%N :: sp (tok_col t)                 (* block value on the next line *)
                  | _, _ => sp (tok_col t)
                  end in
    let body := match t with
                | KDash _ => [45; 32]%N
                | KKey _ k => k ++ [58%N]
                | KLeaf _ lf => leaf_text lf ++ [10%N]
                end in
    let blk2 :=
      match t with
      | KLeaf _ (LScalar _) | KLeaf _ LEmptyMap => false
      | KLeaf _ LEmptySeq => blk1
      | KKey _ _ => match prev with Some (KKey _ _) | Some (KDash _) => false | _ => blk1 end   (* a key written inline after a dash lowers it too *)
      | KDash _ => match prev with Some (KKey _ _) => false | _ => blk1 end
      end in
    lead ++ body ++ render_go blk2 (Some t) r
  end.
Definition render (l : list tok) : list N := render_go false None l.
Definition emit (t : tree) : list N := render (toks 0 t).

(* ---- reading a token stream back by columns ---- *)
Fixpoint parse (fuel : nat) (c : nat) (l : list tok) : option (tree * list tok) :=
  match fuel with
  | O => None
  | S f =>
    match l with
    | KLeaf c' lf :: r =>
      if Nat.eqb c' c then
        Some (match lf with LScalar s => TSc s | LEmptySeq => TSeq [] | LEmptyMap => TMap [] end, r)
      else None
    | KDash c' :: _ =>
      if Nat.eqb c' c then
        (fix items (g : nat) (l : list tok) (acc : list tree) : option (tree * list tok) :=
           match g with
           | O => None
           | S g' =>
             match l with
             | KDash c2 :: r =>
               if Nat.eqb c2 c then
                 match parse f (c + 2) r with
                 | Some (x, r') => items g' r' (x :: acc)
                 | None => None
                 end
               else Some (TSeq (rev acc), l)
             | _ => Some (TSeq (rev acc), l)
             end
           end) (S (length l)) l []
      else None
    | KKey c' _ :: _ =>
      if Nat.eqb c' c then
        (fix entries (g : nat) (l : list tok) (acc : list (list N * tree)) : option (tree * list tok) :=
           match g with
           | O => None
           | S g' =>
             match l with
             | KKey c2 k :: r =>
               if Nat.eqb c2 c then
                 match parse f (c + 2) r with
                 | Some (v, r') => entries g' r' ((k, v) :: acc)
                 | None => None
                 end
               else Some (TMap (rev acc), l)
             | _ => Some (TMap (rev acc), l)
             end
           end) (S (length l)) l []
      else None
    | [] => None
    end
  end.
