(* Scalars.v -- executable model of src/parse_scalars.rs, src/base64.rs, src/tags.rs and the
   scalar arms of YamlDeserializer::deserialize_* / deserialize_any (src/de.rs).
   Model file: definitions only.  Transcribed function by function; comments name the Rust item. *)
From SS Require Export Gen.Constants Model.Text.
Local Open Scope N_scope.

(* ---------- ScalarStyle, numeric codes identical to the hook's style_code ---------- *)
Inductive style := Plain | SingleQuoted | DoubleQuoted | Literal | Folded.
Definition style_of_code (c : N) : style :=
  match c with 0 => Plain | 1 => SingleQuoted | 2 => DoubleQuoted | 3 => Literal | _ => Folded end.
Definition is_plain (s : style) : bool := match s with Plain => true | _ => false end.
Definition is_quoted (s : style) : bool :=
  match s with SingleQuoted | DoubleQuoted => true | _ => false end.

(* ---------- tags.rs ---------- *)
Fixpoint tag_lookup (tbl : list (str * N)) (k : str) : option N :=
  match tbl with
  | [] => None
  | (k', v) :: r => if str_eqb k k' then Some v else tag_lookup r k
  end.
(* SfTag::from_optional_cow *)
Definition sftag_from_optional (t : option str) : N :=
  match t with
  | None => TAG_None
  | Some k => match tag_lookup TAG_LOOKUP k with Some v => v | None => TAG_Other end
  end.
Fixpoint assoc_bool (tbl : list (N * bool)) (k : N) : bool :=
  match tbl with [] => false | (k', v) :: r => if k =? k' then v else assoc_bool r k end.
(* SfTag::can_parse_into_string *)
Definition can_parse_into_string (tag : N) : bool := assoc_bool CAN_PARSE_INTO_STRING tag.

(* ---------- integer limits ---------- *)
Definition U128_MAX : N := 2 ^ 128 - 1.
Definition I128_MAX : Z := (2 ^ 127 - 1)%Z.
Definition I128_MIN : Z := (- 2 ^ 127)%Z.
Definition umax (bits : N) : N := 2 ^ bits - 1.
Definition smax (bits : N) : Z := (2 ^ (Z.of_N bits - 1) - 1)%Z.
Definition smin (bits : N) : Z := (- 2 ^ (Z.of_N bits - 1))%Z.

(* ---------- parse_scalars.rs ---------- *)
(* the digit classification shared by the three arms of parse_digits_u128 *)
Definition digit_val (radix c : N) : option N :=
  if (48 <=? c) && (c <=? 57) then
    let d := c - 48 in if radix <=? d then None else Some d
  else if (97 <=? c) && (c <=? 102) && (10 <? radix) then
    let d := 10 + (c - 97) in if radix <=? d then None else Some d
  else if (65 <=? c) && (c <=? 70) && (10 <? radix) then
    let d := 10 + (c - 65) in if radix <=? d then None else Some d
  else None.

(* fn parse_digits_u128: checked_mul / checked_add on u128 *)
Fixpoint parse_digits_u128_go (radix : N) (ds : str) (val : N) (saw : bool) : option N :=
  match ds with
  | [] => if saw then Some val else None
  | c :: r =>
    if c =? 95 then parse_digits_u128_go radix r val saw
    else match digit_val radix c with
         | None => None
         | Some d =>
           let v1 := val * radix in
           if U128_MAX <? v1 then None else
           let v2 := v1 + d in
           if U128_MAX <? v2 then None else parse_digits_u128_go radix r v2 true
         end
  end.
Definition parse_digits_u128 (digits : str) (radix : N) : option N :=
  parse_digits_u128_go radix digits 0 false.

(* fn parse_decimal_unsigned_u128 *)
Definition parse_decimal_unsigned_u128 (digits : str) : option N :=
  parse_digits_u128_go 10 digits 0 false.

(* fn parse_decimal_signed_i128: accumulates negatively when neg (so that i128::MIN fits) *)
Fixpoint parse_decimal_signed_go (neg : bool) (ds : str) (val : Z) (saw : bool) : option Z :=
  match ds with
  | [] => if saw then Some val else None
  | c :: r =>
    if c =? 95 then parse_decimal_signed_go neg r val saw
    else if (48 <=? c) && (c <=? 57) then
      let d := Z.of_N (c - 48) in
      let v1 := (val * 10)%Z in
      if ((v1 <? I128_MIN) || (I128_MAX <? v1))%Z then None else
      let v2 := if neg then (v1 - d)%Z else (v1 + d)%Z in
      if ((v2 <? I128_MIN) || (I128_MAX <? v2))%Z then None
      else parse_decimal_signed_go neg r v2 true
    else None
  end.
Definition parse_decimal_signed_i128 (digits : str) (neg : bool) : option Z :=
  parse_decimal_signed_go neg digits 0%Z false.

(* fn radix_and_digits *)
Definition or_else {A} (a b : option A) : option A := match a with Some _ => a | None => b end.
Definition radix_and_digits (legacy_octal : bool) (rest : str) : N * str :=
  match or_else (strip_prefix [48; 120] rest) (strip_prefix [48; 88] rest) with
  | Some r => (16, r)
  | None =>
    match or_else (strip_prefix [48; 111] rest) (strip_prefix [48; 79] rest) with
    | Some r => (8, r)
    | None =>
      match or_else (strip_prefix [48; 98] rest) (strip_prefix [48; 66] rest) with
      | Some r => (2, r)
      | None =>
        if legacy_octal && starts_with [48; 48] rest then
          (if str_eqb rest [48; 48] then (8, [48]) else (8, skipn 2 rest))
        else (10, rest)
      end
    end
  end.

Definition fits_signed (bits : N) (v : Z) : option Z :=
  if ((smin bits <=? v) && (v <=? smax bits))%Z then Some v else None.
Definition fits_unsigned (bits : N) (v : N) : option N :=
  if v <=? umax bits then Some v else None.

(* the strip_prefix('+') / strip_prefix('-') cascade of parse_int_signed *)
Definition sign_split (t : str) : bool * str :=
  match strip_prefix [43] t with
  | Some r => (false, r)
  | None => match strip_prefix [45] t with Some r => (true, r) | None => (false, t) end
  end.

(* fn parse_int_signed::<iN> *)
Definition parse_int_signed (bits : N) (s : str) (legacy_octal : bool) : option Z :=
  let '(neg, rest) := sign_split (trim s) in
  let '(radix, digits) := radix_and_digits legacy_octal rest in
  if radix =? 10 then
    match parse_decimal_signed_i128 digits neg with
    | None => None
    | Some v => fits_signed bits v
    end
  else
    match parse_digits_u128 digits radix with
    | None => None
    | Some mag =>
      (* neg: 0i128.checked_sub_unsigned(mag); otherwise mag.try_into::<i128>() *)
      if neg then
        (if (I128_MIN <=? - Z.of_N mag)%Z then fits_signed bits (- Z.of_N mag)%Z else None)
      else
        (if (Z.of_N mag <=? I128_MAX)%Z then fits_signed bits (Z.of_N mag) else None)
    end.

(* fn parse_int_unsigned::<uN> *)
Definition parse_int_unsigned (bits : N) (s : str) (legacy_octal : bool) : option N :=
  let t := trim s in
  if starts_with [45] t then None else
  let rest := match strip_prefix [43] t with Some r => r | None => t end in
  let '(radix, digits) := radix_and_digits legacy_octal rest in
  match (if radix =? 10 then parse_decimal_unsigned_u128 digits
         else parse_digits_u128 digits radix) with
  | None => None
  | Some v => fits_unsigned bits v
  end.

(* fn parse_yaml11_bool *)
Definition parse_yaml11_bool (s : str) : option bool :=
  let t := trim s in
  if str_in_nocase t BOOL_TRUE_LITERALS then Some true
  else if str_in_nocase t BOOL_FALSE_LITERALS then Some false
  else None.

Definition s_tilde : str := [126].
Definition s_null : str := [110; 117; 108; 108].
Definition s_true : str := [116; 114; 117; 101].
Definition s_false : str := [102; 97; 108; 115; 101].

(* fn scalar_is_nullish *)
Definition scalar_is_nullish (value : str) (st : style) : bool :=
  is_plain st &&
  (match value with [] => true | _ => false end || str_eqb value s_tilde
   || eq_ignore_ascii_case value s_null).

(* fn scalar_is_nullish_for_option *)
Definition scalar_is_nullish_for_option (value : str) (st : style) : bool :=
  (match value with [] => true | _ => false end && negb (is_quoted st))
  || (is_plain st && (str_eqb value s_tilde || eq_ignore_ascii_case value s_null)).

(* fn leading_zero_decimal *)
Definition leading_zero_decimal (t : str) : bool :=
  let s := trim t in
  let digits := match s with 43 :: r | 45 :: r => r | _ => s end in
  match digits with
  | 48 :: next :: _ =>
    negb ((next =? 120) || (next =? 88) || (next =? 111) || (next =? 79) || (next =? 98) || (next =? 66))
  | _ => false
  end.

(* ---- floats: acceptance grammar of <f64 as FromStr> plus finiteness of the rounded value ---- *)
Inductive fclass := FNan | FInf (neg : bool) | FFinite.

Definition is_digit (c : N) : bool := (48 <=? c) && (c <=? 57).
Fixpoint take_digits (s : str) : str * str :=
  match s with
  | c :: r => if is_digit c then let '(d, r') := take_digits r in (c :: d, r') else ([], s)
  | [] => ([], [])
  end.
Fixpoint digits_to_N (ds : str) (acc : N) : N :=
  match ds with [] => acc | c :: r => digits_to_N r (acc * 10 + (c - 48)) end.
Fixpoint strip_leading_zeros (ds : str) : str :=
  match ds with 48 :: r => strip_leading_zeros r | _ => ds end.

(* an optional leading sign: (negative?, what follows) *)
Definition split_sign (s : str) : bool * str :=
  match s with
  | c :: r => if c =? 43 then (false, r) else if c =? 45 then (true, r) else (false, s)
  | [] => (false, s)
  end.
(* the fraction digits after a dot, if there is one *)
Definition after_dot (r1 : str) : str * str :=
  match r1 with
  | c :: r => if c =? 46 then take_digits r else ([], r1)
  | [] => ([], r1)
  end.

(* mantissa digits (integer part ++ fraction), decimal exponent *)
Definition parse_number (s : str) : option (str * Z) :=
  let '(ip, r1) := take_digits s in
  let '(fp, r2) := after_dot r1 in
  match ip, fp with
  | [], [] => None
  | _, _ =>
    let frac_len := Z.of_nat (length fp) in
    match r2 with
    | [] => Some (ip ++ fp, (- frac_len)%Z)
    | e :: r3 =>
      if (e =? 101) || (e =? 69) then
        let '(eneg, r4) := split_sign r3 in
        let '(ed, r5) := take_digits r4 in
        match ed, r5 with
        | _ :: _, [] =>
          let ev := Z.of_N (digits_to_N ed 0) in
          Some (ip ++ fp, ((if eneg then - ev else ev) - frac_len)%Z)
        | _, _ => None
        end
      else None
    end
  end.

(* does M * 10^E round (nearest-even) to infinity?  threshold = 2^emax - 2^(emax - prec - 1) *)
Definition overflows (thr : N) (mant : str) (e10 : Z) : bool :=
  let m := strip_leading_zeros mant in
  match m with
  | [] => false
  | _ =>
    let d := Z.of_nat (length m) in
    if (330 <? d + e10)%Z then true
    else if (d + e10 <? 30)%Z then false
    else
      let mv := digits_to_N m 0 in
      if (0 <=? e10)%Z then thr <=? mv * 10 ^ Z.to_N e10
      else thr * 10 ^ Z.to_N (- e10) <=? mv
  end.
Definition F64_OVERFLOW_THRESHOLD : N := 2 ^ 1024 - 2 ^ 970.
Definition F32_OVERFLOW_THRESHOLD : N := 2 ^ 128 - 2 ^ 103.

Definition s_inf : str := [105; 110; 102].
Definition s_infinity : str := [105; 110; 102; 105; 110; 105; 116; 121].
Definition s_nan : str := [110; 97; 110].

(* <fN as FromStr>::from_str : class of the result, None = Err *)
Definition rust_float_class (thr : N) (t : str) : option fclass :=
  let '(neg, r) := split_sign t in
  if eq_ignore_ascii_case r s_inf || eq_ignore_ascii_case r s_infinity then Some (FInf neg)
  else if eq_ignore_ascii_case r s_nan then Some FNan
  else match parse_number r with
       | None => None
       | Some (m, e) => Some (if overflows thr m e then FInf neg else FFinite)
       end.

(* fn parse_yaml12_float (angle_conversions = false) *)
Definition parse_yaml12_float (thr : N) (s : str) : option fclass :=
  let t := trim s in
  let lower := to_ascii_lowercase t in
  if str_in lower FLOAT_NAN_WORDS then Some FNan
  else if str_in lower FLOAT_INF_WORDS then Some (FInf false)
  else if str_in lower FLOAT_NEG_INF_WORDS then Some (FInf true)
  else rust_float_class thr t.

(* fn maybe_not_string *)
Definition maybe_not_string (s : str) (st : style) : bool :=
  is_plain st &&
  (match parse_yaml12_float F64_OVERFLOW_THRESHOLD s with Some _ => true | None => false end
   || match parse_int_signed 128 s false with Some _ => true | None => false end
   || match parse_yaml11_bool s with Some _ => true | None => false end
   || scalar_is_nullish s Plain).

(* ---------- base64.rs ---------- *)
Definition b64_val (b : N) : option N :=
  if (65 <=? b) && (b <=? 90) then Some (b - 65)
  else if (97 <=? b) && (b <=? 122) then Some (b - 97 + 26)
  else if (48 <=? b) && (b <=? 57) then Some (b - 48 + 52)
  else if b =? 43 then Some 62
  else if b =? 47 then Some 63
  else None.

Definition pad_count (c0 c1 c2 c3 : N) : N :=
  if c3 =? 61 then (if c2 =? 61 then (if c1 =? 61 then (if c0 =? 61 then 4 else 3) else 2) else 1) else 0.

(* one 4-byte chunk; [last] = this is the final chunk *)
Definition b64_chunk (last : bool) (c0 c1 c2 c3 : N) : option (list N) :=
  let pad := pad_count c0 c1 c2 c3 in
  if (0 <? pad) && negb last then None else
  match b64_val c0, b64_val c1 with
  | Some a, Some b =>
    match (if c2 =? 61 then (if pad <? 2 then None else Some 0) else b64_val c2) with
    | None => None
    | Some c =>
      match (if c3 =? 61 then (if pad =? 0 then None else Some 0) else b64_val c3) with
      | None => None
      | Some d =>
        if (pad =? 2) && negb ((b mod 16) =? 0) then None
        else if (pad =? 1) && negb ((c mod 4) =? 0) then None
        else
          let triple := a * 262144 + b * 4096 + c * 64 + d in
          let o0 := (triple / 65536) mod 256 in
          let o1 := (triple / 256) mod 256 in
          let o2 := triple mod 256 in
          Some (if pad =? 0 then [o0; o1; o2] else if pad =? 1 then [o0; o1] else [o0])
      end
    end
  | _, _ => None
  end.

Fixpoint b64_chunks (bs : list N) : option (list N) :=
  match bs with
  | [] => Some []
  | c0 :: c1 :: c2 :: c3 :: r =>
    match b64_chunk (match r with [] => true | _ => false end) c0 c1 c2 c3 with
    | None => None
    | Some o => match b64_chunks r with None => None | Some o' => Some (o ++ o') end
    end
  | _ => None
  end.

(* fn decode_base64_yaml -- the argument is the scalar's UTF-8 bytes *)
Definition decode_base64_yaml (bytes : list N) : option (list N) :=
  b64_chunks (filter (fun b => negb (is_ascii_ws b)) bytes).

(* ---------- de.rs scalar arms ---------- *)
Record cfg := mkCfg {
  legacy_octal_numbers : bool;
  strict_booleans : bool;
  ignore_binary_tag_for_string : bool;
  no_schema : bool
}.

Record scalar_ev := mkScalar { sv_value : str; sv_style : style; sv_tag : N }.

Inductive target :=
| TgBool | TgInt (signed : bool) (bits : N) | TgF32 | TgF64 | TgChar
| TgString            (* String::deserialize -> deserialize_string *)
| TgStr               (* a visitor accepting any str, driven through deserialize_str *)
| TgBytes             (* deserialize_byte_buf *)
| TgUnit
| TgOption (t : target)
| TgAny.

Inductive sres :=
| RBool (b : bool) | RInt (z : Z) | RFloat (c : fclass) | RChar (c : N) | RStr (s : str)
| RBytes (b : list N) | RUnit | RNone | RSome (r : sres)
| RErr (e : eclass).

(* fn take_string_scalar *)
Definition take_string_scalar (c : cfg) (ev : scalar_ev) : sres :=
  let tag := sv_tag ev in
  if (tag =? TAG_Binary) && negb (ignore_binary_tag_for_string c) then
    match decode_base64_yaml (utf8_enc (sv_value ev)) with
    | None => RErr E_InvalidBinaryBase64
    | Some data => match utf8_dec data with
                   | None => RErr E_BinaryNotUtf8
                   | Some t => RStr t
                   end
    end
  else if negb (can_parse_into_string tag) && negb (tag =? TAG_NonSpecific)
          && negb (ignore_binary_tag_for_string c && (tag =? TAG_Binary))
  then RErr E_TaggedScalarCannotDeserializeIntoString
  else RStr (sv_value ev).

Definition string_tag_check (c : cfg) (tag : N) : bool :=  (* true = rejected *)
  negb (can_parse_into_string tag) && negb (tag =? TAG_NonSpecific)
  && negb (ignore_binary_tag_for_string c && (tag =? TAG_Binary)).

(* fn deserialize_any, scalar arm.  Which visit_* is called: *)
Definition deserialize_any_scalar (c : cfg) (ev : scalar_ev) : sres :=
  let tag := sv_tag ev in let st := sv_style ev in let value := sv_value ev in
  if tag =? TAG_Null then RUnit
  else if negb (tag =? TAG_String) && scalar_is_nullish value st then RUnit
  else if negb (is_plain st) || negb (can_parse_into_string tag) || (tag =? TAG_Binary) || (tag =? TAG_String)
  then
    if (tag =? TAG_Binary) && negb (ignore_binary_tag_for_string c) then take_string_scalar c ev
    else if string_tag_check c tag then RErr E_TaggedScalarCannotDeserializeIntoString
    else RStr value
  else
    let t := trim value in
    let try_bool :=
      if strict_booleans c then
        (if eq_ignore_ascii_case t s_true then Some true
         else if eq_ignore_ascii_case t s_false then Some false else None)
      else parse_yaml11_bool value in
    match try_bool with
    | Some b => RBool b
    | None =>
      let try_int :=
        if starts_with [45] t && negb (leading_zero_decimal t) then
          parse_int_signed 64 t (legacy_octal_numbers c)
        else
          match parse_int_unsigned 64 t (legacy_octal_numbers c) with
          | Some v => Some (Z.of_N v)
          | None => parse_int_signed 64 t (legacy_octal_numbers c)
          end in
      match try_int with
      | Some v => RInt v
      | None =>
        match parse_yaml12_float F64_OVERFLOW_THRESHOLD value with
        | Some FFinite => RFloat FFinite
        | Some FNan => RStr [46; 110; 97; 110]
        | Some (FInf true) => RStr [45; 46; 105; 110; 102]
        | Some (FInf false) => RStr [46; 105; 110; 102]
        | None => RStr value
        end
      end
    end.

Fixpoint deser_scalar (c : cfg) (t : target) (ev : scalar_ev) : sres :=
  let tag := sv_tag ev in let st := sv_style ev in let value := sv_value ev in
  match t with
  | TgBool =>
    let tt := trim value in
    if strict_booleans c then
      (if eq_ignore_ascii_case tt s_true then RBool true
       else if eq_ignore_ascii_case tt s_false then RBool false
       else RErr E_InvalidBooleanStrict)
    else match parse_yaml11_bool value with Some b => RBool b | None => RErr E_InvalidScalar end
  | TgInt true bits =>
    match parse_int_signed bits value (legacy_octal_numbers c) with
    | Some v => RInt v | None => RErr E_InvalidScalar end
  | TgInt false bits =>
    match parse_int_unsigned bits value (legacy_octal_numbers c) with
    | Some v => RInt (Z.of_N v) | None => RErr E_InvalidScalar end
  | TgF32 => match parse_yaml12_float F32_OVERFLOW_THRESHOLD value with
             | Some f => RFloat f | None => RErr E_InvalidScalar end
  | TgF64 => match parse_yaml12_float F64_OVERFLOW_THRESHOLD value with
             | Some f => RFloat f | None => RErr E_InvalidScalar end
  | TgChar =>
    if negb (tag =? TAG_String) && ((tag =? TAG_Null) || scalar_is_nullish value st)
    then RErr E_InvalidCharNull
    else if negb (tag =? TAG_String) && no_schema c && maybe_not_string value st
    then RErr E_QuotingRequired
    else match value with [ch] => RChar ch | _ => RErr E_InvalidCharNotSingleScalar end
  | TgString =>
    if ((tag =? TAG_Null) || scalar_is_nullish value st) && negb (tag =? TAG_String)
    then RErr E_NullIntoString
    else if no_schema c && maybe_not_string value st && negb (tag =? TAG_String)
    then RErr E_QuotingRequired
    else if (tag =? TAG_Binary) && negb (ignore_binary_tag_for_string c)
    then take_string_scalar c ev
    else if string_tag_check c tag then RErr E_TaggedScalarCannotDeserializeIntoString
    else RStr value
  | TgStr =>
    if ((tag =? TAG_Null) || scalar_is_nullish value st) && negb (tag =? TAG_String) then RErr E_NullIntoString
    else RStr value
  | TgBytes =>
    if tag =? TAG_Binary then
      match decode_base64_yaml (utf8_enc value) with
      | Some d => RBytes d | None => RErr E_InvalidBinaryBase64 end
    else RErr E_BytesNotSupportedMissingBinaryTag
  | TgUnit => if scalar_is_nullish value st then RUnit else RErr E_UnexpectedValueForUnit
  | TgOption t' =>
    if tag =? TAG_Null then RNone
    else if negb (tag =? TAG_String) && negb (tag =? TAG_Binary) && scalar_is_nullish_for_option value st then RNone
    else match deser_scalar c t' ev with
         | RErr e => RErr e
         | r => RSome r
         end
  | TgAny => deserialize_any_scalar c ev
  end.

(* LiveEvents::next_impl, Event::Scalar arm (no anchor): the folded-at-column-0 rejection. *)
Definition live_scalar_check (ev : scalar_ev) (start_col0 : bool) : option eclass :=
  match sv_style ev with
  | Folded => if start_col0 && negb (match trim (sv_value ev) with [] => true | _ => false end)
              then Some E_FoldedBlockScalarMustIndentContent else None
  | _ => None
  end.

(* from_str_with_options_impl on a document whose root is one scalar (or is empty):
   an empty document is the synthesized null scalar, and any error on it is reported as Eof. *)
Definition from_str_scalar (c : cfg) (t : target) (doc : option (scalar_ev * bool)) : sres :=
  match doc with
  | None =>
    match deser_scalar c t (mkScalar [] Plain TAG_Null) with
    | RErr _ => RErr E_Eof
    | r => r
    end
  | Some (ev, col0) =>
    match live_scalar_check ev col0 with
    | Some e => RErr e
    | None => deser_scalar c t ev
    end
  end.
