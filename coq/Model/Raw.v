(* Raw.v -- the raw event stream of saphyr-parser as the crate sees it (Event, Span/Marker),
   the crate's own event type Ev, and src/location.rs::location_from_span.
   Model file: definitions only. *)
From SS Require Export Model.Scalars.
Local Open Scope N_scope.

(* saphyr_parser::Marker *)
Record mark := mkMark { mk_index : N; mk_line : N; mk_col : N; mk_byte : option N }.
(* saphyr_parser::Span; span.len() = end.index - start.index *)
Record pspan := mkSpan { sp_start : mark; sp_end : mark }.

(* crate::Location with its Span: line, column, char offset, char len, byte offset, byte len *)
Record loc := mkLoc { l_line : N; l_col : N; l_off : N; l_len : N; l_boff : N; l_blen : N }.
Definition loc_unknown : loc := mkLoc 0 0 0 0 0 0.
Definition loc_eqb (a b : loc) : bool :=
  (l_line a =? l_line b) && (l_col a =? l_col b) && (l_off a =? l_off b) && (l_len a =? l_len b)
  && (l_boff a =? l_boff b) && (l_blen a =? l_blen b).

Definition U32_MAX : N := 4294967295.
Definition trunc32 (n : N) : N := n mod 4294967296.   (* `as u32` *)

(* fn location_from_span  (feature huge_documents off: SpanIndex = u32) *)
Definition location_from_span (s : pspan) : loc :=
  let st := sp_start s in let en := sp_end s in
  let '(bo, bl) :=
    match mk_byte st, mk_byte en with
    | Some sb, Some eb =>
      let len := eb - sb in            (* saturating_sub *)
      if (U32_MAX <? sb) || (U32_MAX <? len) then (0, 0) else (sb, len)
    | _, _ => (0, 0)
    end in
  mkLoc (trunc32 (mk_line st)) (trunc32 (mk_col st + 1)) (trunc32 (mk_index st))
        (trunc32 (mk_index en - mk_index st)) bo bl.

(* Error::from_scan_error : location of a scan error *)
Definition location_from_scan_mark (m : mark) : loc :=
  mkLoc (trunc32 (mk_line m)) (trunc32 (mk_col m + 1)) (trunc32 (mk_index m)) 1 0 0.

(* saphyr_parser::Event *)
Inductive raw_ev :=
| RStreamStart | RStreamEnd
| RDocStart (explicit : bool) | RDocEnd
| RAlias (id : N)
| RScalar (value : str) (st : style) (anchor : N) (tag : option str)
| RSeqStart (anchor : N) (tag : option str)
| RSeqEnd
| RMapStart (anchor : N) (tag : option str)
| RMapEnd
| RNothing.

(* one item of Parser::next(): Ok((event, span)) or Err(scan error at mark, unknown-anchor?) *)
Inductive raw_item :=
| RItem (e : raw_ev) (s : pspan)
| RScanErr (m : mark) (unknown_anchor : bool).

(* crate::de::Ev (the Taken variant is an internal tombstone of ReplayEvents and never delivered) *)
Inductive ev :=
| EScalar (value : str) (tag : N) (raw_tag : option str) (st : style) (anchor : N) (l : loc)
| ESeqStart (anchor : N) (tag : N) (raw_tag : option str) (l : loc)
| ESeqEnd (l : loc)
| EMapStart (anchor : N) (l : loc)
| EMapEnd (l : loc).

Definition ev_loc (e : ev) : loc :=
  match e with
  | EScalar _ _ _ _ _ l | ESeqStart _ _ _ l | ESeqEnd l | EMapStart _ l | EMapEnd l => l
  end.

Definition ev_anchor (e : ev) : N :=
  match e with
  | EScalar _ _ _ _ a _ | ESeqStart a _ _ _ | EMapStart a _ => a
  | _ => 0
  end.

(* errors: class plus the single location (Budget carries the breach; AliasError two locations) *)
Inductive breach :=
| BrEvents (n : N) | BrAliases (n : N) | BrAnchors (n : N) | BrDepth (n : N) | BrDocuments (n : N)
| BrNodes (n : N) | BrScalarBytes (n : N) | BrMergeKeys (n : N) | BrRatio (aliases anchors : N)
| BrUnbalanced.

Inductive err :=
| Err (c : eclass) (l : loc)
| ErrBudget (b : breach) (l : loc)
| ErrAlias (reference defined : loc)
| ErrIO.

Definition err_with_location (e : err) (l : loc) : err :=
  match e with
  | Err c _ => Err c l
  | ErrBudget b _ => ErrBudget b l
  | ErrAlias r d => ErrAlias r d
  | ErrIO => ErrIO
  end.
