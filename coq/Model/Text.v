(* Text.v -- strings as lists of Unicode scalar values (N), and the str helpers of Rust's std
   that the crate uses: trim (Unicode White_Space), strip_prefix, eq_ignore_ascii_case,
   to_ascii_lowercase, UTF-8 length/encoding.  Model file: definitions only, no proofs. *)
From Coq Require Export List NArith ZArith Bool.
Export ListNotations.
Local Open Scope N_scope.

Definition cp := N.
Definition str := list N.

(* char::is_whitespace  (Unicode White_Space property) *)
Definition is_ws (c : N) : bool :=
  ((9 <=? c) && (c <=? 13)) || (c =? 32) || (c =? 133) || (c =? 160) || (c =? 5760)
  || ((8192 <=? c) && (c <=? 8202)) || (c =? 8232) || (c =? 8233) || (c =? 8239)
  || (c =? 8287) || (c =? 12288).

(* u8::is_ascii_whitespace : space, \t, \n, \x0C, \r *)
Definition is_ascii_ws (c : N) : bool :=
  (c =? 32) || (c =? 9) || (c =? 10) || (c =? 12) || (c =? 13).

Fixpoint trim_start (s : str) : str :=
  match s with
  | c :: r => if is_ws c then trim_start r else s
  | [] => []
  end.

Definition trim_end (s : str) : str := rev (trim_start (rev s)).
Definition trim (s : str) : str := trim_end (trim_start s).

Fixpoint str_eqb (a b : str) : bool :=
  match a, b with
  | [], [] => true
  | x :: a', y :: b' => (x =? y) && str_eqb a' b'
  | _, _ => false
  end.

Fixpoint strip_prefix (p s : str) : option str :=
  match p, s with
  | [], _ => Some s
  | x :: p', y :: s' => if x =? y then strip_prefix p' s' else None
  | _ :: _, [] => None
  end.

Definition starts_with (p s : str) : bool :=
  match strip_prefix p s with Some _ => true | None => false end.

Definition ascii_lower (c : N) : N := if (65 <=? c) && (c <=? 90) then c + 32 else c.
Definition to_ascii_lowercase (s : str) : str := map ascii_lower s.
Definition eq_ignore_ascii_case (a b : str) : bool :=
  str_eqb (to_ascii_lowercase a) (to_ascii_lowercase b).

Fixpoint str_in (s : str) (l : list str) : bool :=
  match l with
  | [] => false
  | x :: r => str_eqb s x || str_in s r
  end.

Fixpoint str_in_nocase (s : str) (l : list str) : bool :=
  match l with
  | [] => false
  | x :: r => eq_ignore_ascii_case s x || str_in_nocase s r
  end.

(* A Rust char is a Unicode scalar value. *)
Definition cp_valid (c : N) : bool := (c <? 55296) || ((57343 <? c) && (c <? 1114112)).

(* char::len_utf8 *)
Definition utf8_len (c : N) : N :=
  if c <? 128 then 1 else if c <? 2048 then 2 else if c <? 65536 then 3 else 4.

Fixpoint utf8_str_len (s : str) : N :=
  match s with [] => 0 | c :: r => utf8_len c + utf8_str_len r end.

Definition utf8_enc1 (c : N) : list N :=
  if c <? 128 then [c]
  else if c <? 2048 then [192 + c / 64; 128 + c mod 64]
  else if c <? 65536 then [224 + c / 4096; 128 + (c / 64) mod 64; 128 + c mod 64]
  else [240 + c / 262144; 128 + (c / 4096) mod 64; 128 + (c / 64) mod 64; 128 + c mod 64].

Definition utf8_enc (s : str) : list N := flat_map utf8_enc1 s.

(* Strict UTF-8 decoder (what str::from_utf8 accepts): shortest form, no surrogates, <= 0x10FFFF. *)
Definition is_cont (b : N) : bool := (128 <=? b) && (b <? 192).

Fixpoint utf8_dec_fuel (fuel : nat) (bs : list N) : option str :=
  match fuel with
  | O => match bs with [] => Some [] | _ => None end
  | S f =>
    match bs with
    | [] => Some []
    | b0 :: r0 =>
      if b0 <? 128 then option_map (cons b0) (utf8_dec_fuel f r0)
      else if (194 <=? b0) && (b0 <? 224) then
        match r0 with
        | b1 :: r1 => if is_cont b1
                      then option_map (cons ((b0 - 192) * 64 + (b1 - 128))) (utf8_dec_fuel f r1)
                      else None
        | _ => None
        end
      else if (224 <=? b0) && (b0 <? 240) then
        match r0 with
        | b1 :: b2 :: r2 =>
          let c := (b0 - 224) * 4096 + (b1 - 128) * 64 + (b2 - 128) in
          if is_cont b1 && is_cont b2 && (2048 <=? c) && cp_valid c
          then option_map (cons c) (utf8_dec_fuel f r2) else None
        | _ => None
        end
      else if (240 <=? b0) && (b0 <? 245) then
        match r0 with
        | b1 :: b2 :: b3 :: r3 =>
          let c := (b0 - 240) * 262144 + (b1 - 128) * 4096 + (b2 - 128) * 64 + (b3 - 128) in
          if is_cont b1 && is_cont b2 && is_cont b3 && (65536 <=? c) && (c <? 1114112)
          then option_map (cons c) (utf8_dec_fuel f r3) else None
        | _ => None
        end
      else None
    end
  end.

Definition utf8_dec (bs : list N) : option str := utf8_dec_fuel (length bs) bs.
