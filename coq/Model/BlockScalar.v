(* BlockScalar.v -- literal block scalars (C12, C20): what src/ser.rs serialize_str writes for StrStyle::Literal
   (header: optional indentation indicator, chomping indicator; body lines) and how a YAML reader turns a literal
   block back into text (YAML 1.2.2 section 8.1: content indentation explicit or detected from the first non-empty
   line, that many spaces stripped from every line, lines joined with line feeds, chomping of the trailing breaks).
   Strings are lists of Unicode scalar values; only LF (10) and SPACE (32) are special here. *)
From SS Require Export Model.Text.
From Coq Require Export NArith List Bool.
Export ListNotations.
Local Open Scope N_scope.

Definition is_sp (c : N) : bool := c =? 32.
Definition is_nl (c : N) : bool := c =? 10.

Inductive chomp := Strip | Clip | Keep.

(* ---- lines ---- *)
Fixpoint lines_of (s : list N) : list (list N) :=
  match s with
  | [] => [[]]
  | c :: r =>
    if is_nl c then [] :: lines_of r
    else match lines_of r with l :: ls => (c :: l) :: ls | [] => [[c]] end
  end.

Fixpoint join_nl (ls : list (list N)) : list N :=
  match ls with
  | [] => []
  | [l] => l
  | l :: r => l ++ 10 :: join_nl r
  end.

Fixpoint lead_sp (l : list N) : nat :=
  match l with c :: r => if is_sp c then S (lead_sp r) else O | [] => O end.
Definition all_sp (l : list N) : bool := forallb is_sp l.

(* v.trim_end_matches('\n') and the number of line feeds removed *)
Fixpoint trim_end_nl (v : list N) : list N * nat :=
  match v with
  | [] => ([], O)
  | c :: r =>
    let '(t, k) := trim_end_nl r in
    match t with
    | [] => if is_nl c then ([], S k) else ([c], k)
    | _ => (c :: t, k)
    end
  end.

(* ---- the writer ---- *)
Definition pad (ind : nat) (l : list N) : list N := repeat 32 ind ++ l.

(* fn first_line_leading_spaces: leading spaces of the first line that is not the empty string *)
Fixpoint first_line_leading_spaces (ls : list (list N)) : nat :=
  match ls with
  | [] => O
  | [] :: r => first_line_leading_spaces r
  | l :: _ => lead_sp l
  end.

Record block := mkBlock {
  b_explicit : bool;          (* an indentation indicator is written *)
  b_chomp : chomp;
  b_lines : list (list N)     (* body lines as written (indentation included), each followed by a line feed *)
}.

(* serialize_str, StrStyle::Literal arm, for a body indentation of `ind` spaces *)
Definition emit_literal (ind : nat) (v : list N) : block :=
  let '(content, k) := trim_end_nl v in
  let explicit := Nat.ltb 0 (first_line_leading_spaces (lines_of content)) in
  let ch := match k with O => Strip | S O => Clip | _ => Keep end in
  let body :=
    match content with
    | [] => repeat (pad ind []) (match k with O => O | S O => 1%nat | _ => k end)
    | _ => map (pad ind) (lines_of content) ++ repeat (pad ind []) (Nat.pred k)
    end in
  mkBlock explicit ch body.

(* ---- the reader ---- *)
(* indentation detection: the first line that is not made of spaces only gives it; the all-space lines before it
   must not be longer (Some None = no such line: nothing but empty lines) *)
Fixpoint detect (lines : list (list N)) (max_empty : nat) : option (option nat) :=
  match lines with
  | [] => Some None
  | l :: r =>
    if all_sp l then detect r (Nat.max max_empty (length l))
    else if Nat.ltb (lead_sp l) max_empty then None else Some (Some (lead_sp l))
  end.

Fixpoint strip_lines (n : nat) (lines : list (list N)) : option (list (list N)) :=
  match lines with
  | [] => Some []
  | l :: r =>
    match strip_lines n r with
    | None => None
    | Some r' =>
      if Nat.leb n (lead_sp l) then Some (skipn n l :: r')
      else if all_sp l then Some ([] :: r')
      else None                              (* a less indented line with text: not part of this scalar *)
    end
  end.

Definition apply_chomp (ch : chomp) (t : list N) : list N :=
  match ch with
  | Keep => t
  | Strip => fst (trim_end_nl t)
  | Clip => match fst (trim_end_nl t) with [] => [] | c => c ++ [10] end
  end.

(* every body line carries its own line feed *)
Definition with_breaks (ls : list (list N)) : list N := flat_map (fun l => l ++ [10]) ls.

(* explicit = Some n: the content indentation is given by the indicator (parent indentation + digit) *)
Definition read_literal (explicit : option nat) (ch : chomp) (lines : list (list N)) : option (list N) :=
  let n :=
    match explicit with
    | Some n => Some (Some n)
    | None => detect lines O
    end in
  match n with
  | None => None
  | Some None => Some (apply_chomp ch (with_breaks (map (fun _ => []) lines)))
  | Some (Some n) =>
    match strip_lines n lines with
    | None => None
    | Some ls => Some (apply_chomp ch (with_breaks ls))
    end
  end.

(* reading back what the writer wrote at body indentation `ind` *)
Definition read_back (ind : nat) (b : block) : option (list N) :=
  read_literal (if b_explicit b then Some ind else None) (b_chomp b) (b_lines b).
