(* Anchors.v -- shared-pointer topology through anchors and aliases (C14).
   Serializer side (src/ser.rs alloc_anchor_for, AnchorStrong): the nodes wrapped in an anchor type
   are met in document order; each carries the address of its allocation; the first sight of an
   address defines the next anchor id, later sights emit an alias to it.
   Deserializer side (src/anchor_store.rs store_* / get_*, src/anchors.rs): a definition creates a
   fresh allocation and stores it under the anchor id; an alias looks the id up. *)
From Coq Require Export NArith List Bool.
Export ListNotations.
Local Open Scope N_scope.

Inductive mark := Define (id : N) | Alias (id : N).
Definition mark_id (m : mark) : N := match m with Define i | Alias i => i end.

Fixpoint lookup (k : N) (l : list (N * N)) : option N :=
  match l with [] => None | (k', v) :: r => if k =? k' then Some v else lookup k r end.

(* serializer: table address -> id, next id (ids start at 1) *)
Fixpoint ser_marks (ptrs : list N) (table : list (N * N)) (next : N) : list mark :=
  match ptrs with
  | [] => []
  | p :: r =>
    match lookup p table with
    | Some id => Alias id :: ser_marks r table next
    | None => Define next :: ser_marks r ((p, next) :: table) (next + 1)
    end
  end.
Definition serialize (ptrs : list N) : list mark := ser_marks ptrs [] 1.

(* deserializer: store id -> allocation, fresh allocations numbered from 0; an alias to an id that was
   never defined cannot occur in the serializer's output (None) *)
Fixpoint de_allocs (ms : list mark) (store : list (N * N)) (fresh : N) : option (list N) :=
  match ms with
  | [] => Some []
  | Define id :: r =>
    match de_allocs r ((id, fresh) :: store) (fresh + 1) with Some l => Some (fresh :: l) | None => None end
  | Alias id :: r =>
    match lookup id store with
    | Some a => match de_allocs r store fresh with Some l => Some (a :: l) | None => None end
    | None => None
    end
  end.
Definition deserialize (ms : list mark) : option (list N) := de_allocs ms [] 0.

(* canonical numbering of the classes of a list: the index of the first equal element *)
Fixpoint first_index (x : N) (l : list N) (i : N) : N :=
  match l with [] => i | y :: r => if x =? y then i else first_index x r (i + 1) end.
Definition classes (l : list N) : list N := map (fun x => first_index x l 0) l.
