(* FoldedPar.v -- a single-line string written as a folded block scalar (`>-`, the automatic choice of
   src/ser.rs serialize_str for long plain-safe one-line strings, wrapped by src/wrapping.rs write_folded_block) and
   how a YAML reader turns a folded block that is ONE PARAGRAPH back into text: indentation detected or explicit and
   stripped as for literal blocks, then -- every line being non-empty and starting with text -- the line breaks are
   folded into single spaces (YAML 1.2.2 section 8.1.3).  Blocks with empty or more-indented lines are outside this
   reader (it answers None). *)
From SS Require Export Model.Layout Model.BlockScalar.
Local Open Scope N_scope.

Definition text_line (l : list N) : bool :=
  match l with c :: _ => negb (Layout.is_blank c) | [] => false end.

(* strip chomping, one paragraph *)
Definition read_folded_paragraph (explicit : option nat) (lines : list (list N)) : option (list N) :=
  let n := match explicit with Some n => Some (Some n) | None => BlockScalar.detect lines O end in
  match n with
  | Some (Some n) =>
    match BlockScalar.strip_lines n lines with
    | Some ls => if forallb text_line ls then Some (join_sp ls) else None
    | None => None
    end
  | _ => None
  end.

(* what the serializer writes for the one-line text v at body indentation ind and wrap column w *)
Definition emit_folded_line (ind w : nat) (v : list N) : list (list N) :=
  map (BlockScalar.pad ind) (fold_line w v).
