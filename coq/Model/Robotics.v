(* Robotics.v -- executable model of src/robotics.rs (C19): the recursive-descent evaluator of
   arithmetic / angle expressions with its depth limit, unit tracking and sexagesimal forms, over
   IEEE-754 binary64 (Coq's primitive floats), including a correctly rounded decimal->binary64
   conversion for numeric literals (what f64::from_str does). *)
From Coq Require Export Floats ZArith NArith List Bool.
From Coq Require Import Uint63.
From SS Require Export Model.Text.
Export ListNotations.
Local Open Scope Z_scope.

Definition fl := PrimFloat.float.
Definition two52 : Z := 4503599627370496.
Definition two53 : Z := 9007199254740992.

Definition f64_of_bits (b : N) : fl :=
  let z := Z.of_N b in
  let sign := z / 9223372036854775808 in
  let e := (z / two52) mod 2048 in
  let m := z mod two52 in
  let mag :=
    if e =? 2047 then (if m =? 0 then infinity else nan)
    else if e =? 0 then ldshiftexp (of_uint63 (Uint63.of_Z m)) (Uint63.of_Z (-1074 + 2101))
    else ldshiftexp (of_uint63 (Uint63.of_Z (m + two52))) (Uint63.of_Z (e - 1075 + 2101)) in
  if sign =? 1 then (- mag)%float else mag.

(* bit-for-bit equality, all NaNs identified *)
Definition same_float (a b : fl) : bool :=
  (is_nan a && is_nan b) || (PrimFloat.eqb a b && PrimFloat.eqb (1 / a)%float (1 / b)%float).

Definition round_div_even (a b : Z) : Z :=
  let q := a / b in let r := a mod b in
  if 2 * r <? b then q else if b <? 2 * r then q + 1 else if Z.even q then q else q + 1.

(* nearest binary64 (ties to even) of m * 10^e10, m >= 0 *)
Definition dec_to_float (m e10 : Z) (ndigits : Z) : fl :=
  (* number of decimal digits of m, within one *)
  let nd := Z.log2 m * 30103 / 100000 + 1 in
  if m =? 0 then zero
  else if 330 <? e10 + nd then infinity
  else if e10 + nd <? -345 then zero
  else
    let '(num, den) := if 0 <=? e10 then (m * 10 ^ e10, 1) else (m, 10 ^ (- e10)) in
    let k0 := Z.log2 num - Z.log2 den - 53 in
    let scaled k := if 0 <=? k then (num, den * 2 ^ k) else (num * 2 ^ (- k), den) in
    let ok k := let '(a, b) := scaled k in (two52 * b <=? a) && (a <? two53 * b) in
    let k := if ok k0 then k0 else if ok (k0 + 1) then k0 + 1 else if ok (k0 + 2) then k0 + 2 else k0 - 1 in
    let k := Z.max k (-1074) in
    let '(a, b) := scaled k in
    let mant := round_div_even a b in
    let '(mant, k) := if mant =? two53 then (two52, k + 1) else (mant, k) in
    if 1023 <? k + 52 then infinity
    else ldshiftexp (of_uint63 (Uint63.of_Z mant)) (Uint63.of_Z (k + 2101)).

Definition PI : fl := f64_of_bits 4614256656552045848.
Definition DEG2RAD : fl := (PI / 180)%float.
Definition MAX_EXPR_DEPTH : Z := 256.

Definition bytes := list N.
Local Open Scope N_scope.

Definition is_dig (c : N) : bool := (48 <=? c) && (c <=? 57).
Definition is_ws_b (c : N) : bool := (c =? 32) || (c =? 9) || (c =? 10) || (c =? 13).
Definition is_alpha (c : N) : bool := ((65 <=? c) && (c <=? 90)) || ((97 <=? c) && (c <=? 122)).
Definition is_ident_start (c : N) : bool := is_alpha c || (c =? 95).
Definition is_ident_cont (c : N) : bool := is_alpha c || is_dig c || (c =? 95).
Definition lower_b (c : N) : N := if (65 <=? c) && (c <=? 90) then c + 32 else c.

Fixpoint skip_ws (s : bytes) : bytes :=
  match s with c :: r => if is_ws_b c then skip_ws r else s | [] => [] end.

Fixpoint starts_ci (kw s : bytes) : option bytes :=
  match kw, s with
  | [], _ => Some s
  | k :: kr, c :: r => if lower_b c =? k then starts_ci kr r else None
  | _ :: _, [] => None
  end.

(* tags that matter *)
Inductive rtag := RtNone | RtDegrees | RtRadians | RtTimeStamp.

Inductive pres (A : Type) := POk (v : A) (rest : bytes) | PErr | PFuel.
Arguments POk {A}. Arguments PErr {A}. Arguments PFuel {A}.

(* digits with single underscores between digits: returns (digit list, count, rest) or error.
   `first` = no character of this run consumed yet (an underscore there is an error) *)
Fixpoint scan_digits (s : bytes) (prev_digit : bool) (acc : list N) : option (list N * bytes) :=
  match s with
  | c :: r =>
    if is_dig c then scan_digits r true (c :: acc)
    else if c =? 95 then
      (if prev_digit && match r with n :: _ => is_dig n | [] => false end
       then scan_digits r false acc else None)
    else Some (rev acc, s)
  | [] => Some (rev acc, [])
  end.

Definition digits_val (ds : list N) : Z := fold_left (fun a d => (a * 10 + Z.of_N (d - 48))%Z) ds 0%Z.
Definition zlen {A} (l : list A) : Z := Z.of_nat (length l).

(* the numeric literal after the sexagesimal attempt: int part, fraction, exponent *)
Definition parse_plain_number (s : bytes) : pres fl :=
  match scan_digits s false [] with
  | None => PErr
  | Some (ip, r1) =>
    let frac :=
      match r1 with
      | 46 :: r2 => match scan_digits r2 false [] with None => None | Some (fp, r3) => Some (true, fp, r3) end
      | _ => Some (false, [], r1)
      end in
    match frac with
    | None => PErr
    | Some (dot, fp, r3) =>
      let ex :=
        match r3 with
        | e :: r4 =>
          if (e =? 101) || (e =? 69) then
            let '(neg, r5) := match r4 with
                              | c :: r => if c =? 43 then (false, r) else if c =? 45 then (true, r) else (false, r4)
                              | [] => (false, r4)
                              end in
            match scan_digits r5 false [] with
            | None => None
            | Some ([], _) => None                    (* malformed exponent *)
            | Some (ed, r6) => Some (Some (neg, ed), r6)
            end
          else Some (None, r3)
        | [] => Some (None, r3)
        end in
      match ex with
      | None => PErr
      | Some (eo, rest) =>
        (* f64::from_str on the cleaned text: needs at least one mantissa digit *)
        match ip, fp with
        | [], [] => PErr
        | _, _ =>
          let e10 := match eo with
                     | None => 0%Z
                     | Some (neg, ed) => let v := if (400 <? zlen ed)%Z then 100000%Z else digits_val ed in
                                         if neg then (- v)%Z else v
                     end in
          let mant := digits_val (ip ++ fp) in
          POk (dec_to_float mant (e10 - zlen fp)%Z (zlen (ip ++ fp))) rest
        end
      end
    end
  end.

(* unsigned integer field with underscores, accumulated in floating point: (value, digits, rest) *)
Fixpoint read_uint_f (s : bytes) (prev_digit : bool) (v : fl) (n : N) : option (fl * N * bytes) :=
  match s with
  | c :: r =>
    if is_dig c then read_uint_f r true (v * 10 + of_uint63 (Uint63.of_Z (Z.of_N (c - 48))))%float (n + 1)
    else if c =? 95 then
      (if prev_digit && match r with x :: _ => is_dig x | [] => false end then read_uint_f r false v n else None)
    else if n =? 0 then None else Some (v, n, s)
  | [] => if n =? 0 then None else Some (v, n, [])
  end.

Definition U32_MAX_F : fl := of_uint63 4294967295%uint63.

(* float -> integer value for the comparisons `> 59` (small values only are ever compared) *)
Definition f_gt (a b : fl) : bool := PrimFloat.ltb b a.

Fixpoint read_frac (s : bytes) (prev_digit : bool) (num scale : fl) (n : N) : option (fl * N * bytes) :=
  match s with
  | c :: r =>
    if is_dig c then
      let '(num', scale') := if n <? 18 then ((num * 10 + of_uint63 (Uint63.of_Z (Z.of_N (c - 48))))%float, (scale * 10)%float)
                             else (num, scale) in
      read_frac r true num' scale' (n + 1)
    else if c =? 95 then
      (if prev_digit && match r with x :: _ => is_dig x | [] => false end then read_frac r false num scale n else None)
    else if n =? 0 then None else Some ((num / scale)%float, n, s)
  | [] => if n =? 0 then None else Some ((num / scale)%float, n, [])
  end.

(* look-ahead of try_parse_sexagesimal: digits (single underscores inside) followed by ':' *)
Fixpoint sexa_lookahead (s : bytes) (saw_digit last_us : bool) : bool :=
  match s with
  | c :: r =>
    if is_dig c then sexa_lookahead r true false
    else if c =? 95 then (if negb saw_digit || last_us then false else sexa_lookahead r saw_digit true)
    else saw_digit && negb last_us && (c =? 58)
  | [] => false
  end.

Definition evalr := (fl * bool * bool)%type.

(* Some None = not sexagesimal; Some (Some r) = parsed; None = error *)
Definition try_sexagesimal (s : bytes) (tag : rtag) (is_time : bool) : option (option (evalr * bytes)) :=
  if negb (sexa_lookahead s false false) then Some None else
  match read_uint_f s false zero 0 with
  | None => None
  | Some (whole, d1, r1) =>
    match r1 with
    | 58 :: r2 =>
      match read_uint_f r2 false zero 0 with
      | None => None
      | Some (mins, d2, r3) =>
        if f_gt mins U32_MAX_F then None else
        if f_gt mins 59%float then None else
        let after_secs :=
          match r3 with
          | 58 :: r4 =>
            match read_uint_f r4 false zero 0 with
            | None => None
            | Some (secs, d3, r5) =>
              if f_gt secs U32_MAX_F then None else
              if f_gt secs 59%float then None else
              match r5 with
              | 46 :: r6 =>
                match read_frac r6 false zero 1%float 0 with
                | None => None
                | Some (fr, df, r7) => Some ((secs + fr)%float, r7)
                end
              | _ => Some (secs, r5)
              end
            end
          | _ => Some (zero, r3)
          end in
        match after_secs with
        | None => None
        | Some (secs, rest) =>
          let as_seconds := (whole * 3600 + mins * 60 + secs)%float in
          let as_degrees := (whole + mins / 60 + secs / 3600)%float in
          let v :=
            if is_time then
              (match tag with RtDegrees | RtRadians => (as_degrees * DEG2RAD)%float | _ => as_seconds end)
            else (match tag with RtTimeStamp => as_seconds | _ => as_degrees end) in
          Some (Some ((v, true, false), rest))
        end
      end
    | _ => Some None
    end
  end.

Definition parse_number_or_special (s : bytes) (tag : rtag) (is_time : bool) : pres evalr :=
  match starts_ci [46; 105; 110; 102] s with
  | Some r => POk (infinity, false, true) r
  | None =>
    match starts_ci [46; 110; 97; 110] s with
    | Some r => POk (nan, false, true) r
    | None =>
      match try_sexagesimal s tag is_time with
      | None => PErr
      | Some (Some (ev, r)) => POk ev r
      | Some None =>
        match parse_plain_number s with
        | POk v r => POk (v, false, true) r
        | PErr => PErr
        | PFuel => PFuel
        end
      end
    end
  end.

Fixpoint take_ident (s : bytes) (acc : bytes) : bytes * bytes :=
  match s with c :: r => if is_ident_cont c then take_ident r (lower_b c :: acc) else (rev acc, s) | [] => (rev acc, []) end.

Definition beq (a b : bytes) : bool := str_eqb a b.

Fixpoint p_expr (fuel : nat) (s : bytes) (depth : Z) (tag : rtag) (is_time : bool) : pres evalr :=
  match fuel with
  | O => PFuel
  | S f =>
    match p_term f s depth tag is_time with
    | POk ev r => expr_loop f ev r depth tag is_time
    | other => other
    end
  end
with expr_loop (fuel : nat) (acc : evalr) (s : bytes) (depth : Z) (tag : rtag) (is_time : bool) : pres evalr :=
  match fuel with
  | O => PFuel
  | S f =>
    let '(v, uu, sp) := acc in
    let s' := skip_ws s in
    match s' with
    | c :: r =>
      if (c =? 43) || (c =? 45) then
        match p_term f r depth tag is_time with
        | POk (rhs, uu2, sp2) r' =>
          expr_loop f ((if c =? 43 then (v + rhs)%float else (v - rhs)%float), uu || uu2, sp || sp2) r' depth tag is_time
        | other => other
        end
      else POk acc s'
    | [] => POk acc s'
    end
  end
with p_term (fuel : nat) (s : bytes) (depth : Z) (tag : rtag) (is_time : bool) : pres evalr :=
  match fuel with
  | O => PFuel
  | S f =>
    match p_unary f s depth tag is_time with
    | POk ev r => term_loop f ev r depth tag is_time
    | other => other
    end
  end
with term_loop (fuel : nat) (acc : evalr) (s : bytes) (depth : Z) (tag : rtag) (is_time : bool) : pres evalr :=
  match fuel with
  | O => PFuel
  | S f =>
    let '(v, uu, sp) := acc in
    let s' := skip_ws s in
    match s' with
    | c :: r =>
      if (c =? 42) || (c =? 47) then
        match p_unary f r depth tag is_time with
        | POk (rhs, uu2, sp2) r' =>
          term_loop f ((if c =? 42 then (v * rhs)%float else (v / rhs)%float), uu || uu2, sp || sp2) r' depth tag is_time
        | other => other
        end
      else POk acc s'
    | [] => POk acc s'
    end
  end
with p_unary (fuel : nat) (s : bytes) (depth : Z) (tag : rtag) (is_time : bool) : pres evalr :=
  match fuel with
  | O => PFuel
  | S f =>
    (fix signs (s : bytes) (sign : fl) {struct s} : pres evalr :=
       match s with
       | c :: r =>
         if c =? 43 then signs r sign
         else if c =? 45 then signs r (- sign)%float
         else match p_primary f s depth tag is_time with
              | POk (v, uu, sp) r' => POk ((sign * v)%float, uu, sp) r'
              | other => other
              end
       | [] => match p_primary f s depth tag is_time with
               | POk (v, uu, sp) r' => POk ((sign * v)%float, uu, sp) r'
               | other => other
               end
       end) (skip_ws s) 1%float
  end
with p_primary (fuel : nat) (s : bytes) (depth : Z) (tag : rtag) (is_time : bool) : pres evalr :=
  match fuel with
  | O => PFuel
  | S f =>
    match skip_ws s with
    | [] => PErr
    | c :: r =>
      if c =? 40 then
        (if (MAX_EXPR_DEPTH <=? depth)%Z then PErr else
         match p_expr f r (depth + 1)%Z tag is_time with
         | POk ev r' => match skip_ws r' with
                        | c2 :: r'' => if c2 =? 41 then POk ev r'' else PErr
                        | [] => PErr
                        end
         | other => other
         end)
      else if is_dig c || (c =? 46) then parse_number_or_special (c :: r) tag is_time
      else if is_ident_start c then
        let '(ident, r1) := take_ident (c :: r) [] in
        if beq ident [112; 105] then POk (PI, false, true) r1
        else if beq ident [116; 97; 117] then POk ((2 * PI)%float, false, true) r1
        else if beq ident [105; 110; 102] then POk (infinity, false, true) r1
        else if beq ident [110; 97; 110] then POk (nan, false, true) r1
        else if beq ident [100; 101; 103] || beq ident [114; 97; 100] then
          match skip_ws r1 with
          | c2 :: r2 =>
            if c2 =? 40 then
              (if (MAX_EXPR_DEPTH <=? depth)%Z then PErr else
               match p_expr f r2 (depth + 1)%Z tag false with
               | POk (v, _, _) r3 =>
                 match skip_ws r3 with
                 | c3 :: r4 => if c3 =? 41
                               then POk ((if beq ident [100; 101; 103] then (v * DEG2RAD)%float else v), true, false) r4
                               else PErr
                 | [] => PErr
                 end
               | other => other
               end)
            else PErr
          | [] => PErr
          end
        else PErr
      else PErr
    end
  end.

(* fn parse_yaml12_float_angle_converting: None = error *)
Definition eval_scalar (fuel : nat) (s : bytes) (tag : rtag) : pres fl :=
  match p_expr fuel (skip_ws s) 0%Z tag true with
  | POk (v, used_unit, saw_plain) r =>
    match skip_ws r with
    | [] =>
      if negb used_unit then POk (match tag with RtDegrees => (v * DEG2RAD)%float | _ => v end) []
      else if (match tag with RtDegrees => true | _ => false end) && saw_plain then PErr
      else POk v []
    | _ => PErr
    end
  | PErr => PErr
  | PFuel => PFuel
  end.
