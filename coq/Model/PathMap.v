(* PathMap.v -- lookup of a validator's field path among the paths recorded while deserializing
   (C18, src/path_map.rs): exact match first, then a UNIQUE match under successively looser
   comparisons of the key segments (ASCII case, camel/snake tokenisation, alphanumerics only,
   key-for-index).  Paths are lists of segments (is_index, name); the recorded paths come with an
   identifier standing for their locations. *)
From SS Require Export Model.Text.
From Coq Require Export NArith List Bool.
Export ListNotations.
Local Open Scope N_scope.

Definition seg := (bool * list N)%type.          (* (is_index, name) *)
Definition path := list seg.

Definition strip_raw (s : list N) : list N := match s with 114 :: 35 :: r => r | _ => s end.   (* "r#" *)
Definition is_lower (c : N) := (97 <=? c) && (c <=? 122).
Definition is_upper (c : N) := (65 <=? c) && (c <=? 90).
Definition is_digit_c (c : N) := (48 <=? c) && (c <=? 57).
Definition is_alnum (c : N) := is_lower c || is_upper c || is_digit_c c.
Definition lower_c (c : N) : N := if is_upper c then c + 32 else c.
Definition eq_ci (a b : list N) : bool := str_eqb (map lower_c a) (map lower_c b).
Definition collapse (s : list N) : list N := map lower_c (filter is_alnum s).

(* tokenize_segment: split at non-alphanumerics, then at lower->Upper, digit<->letter and
   Upper Upper lower boundaries; tokens in lower case *)
Inductive cclass := CLower | CUpper | CDigit | COther.
Definition classify (c : N) : cclass :=
  if is_lower c then CLower else if is_upper c then CUpper else if is_digit_c c then CDigit else COther.
Definition boundary (prev curr : cclass) (next : option cclass) : bool :=
  match prev, curr with
  | CLower, CUpper => true
  | CDigit, (CLower | CUpper) => true
  | (CLower | CUpper), CDigit => true
  | CUpper, CUpper => match next with Some CLower => true | _ => false end
  | _, _ => false
  end.

(* one alphanumeric piece: cur = current token reversed *)
Fixpoint tok_piece (prev : N) (s : list N) (cur : list N) : list (list N) :=
  match s with
  | [] => match cur with [] => [] | _ => [rev cur] end
  | c :: r =>
    let next := match r with n :: _ => Some (classify n) | [] => None end in
    if boundary (classify prev) (classify c) next
    then (match cur with [] => [] | _ => [rev cur] end) ++ tok_piece c r [lower_c c]
    else tok_piece c r (lower_c c :: cur)
  end.
Definition tokens_of_piece (p : list N) : list (list N) :=
  match p with [] => [] | c :: r => tok_piece c r [lower_c c] end.

Fixpoint split_alnum (s : list N) (cur : list N) : list (list N) :=
  match s with
  | [] => match cur with [] => [] | _ => [rev cur] end
  | c :: r => if is_alnum c then split_alnum r (c :: cur)
              else (match cur with [] => [] | _ => [rev cur] end) ++ split_alnum r []
  end.
Definition tokenize (s : list N) : list (list N) := flat_map tokens_of_piece (split_alnum s []).

Fixpoint toks_eqb (a b : list (list N)) : bool :=
  match a, b with
  | [], [] => true
  | x :: a', y :: b' => str_eqb x y && toks_eqb a' b'
  | _, _ => false
  end.

(* the four segment comparisons, target first *)
Definition seg_ci (t c : seg) : bool :=
  Bool.eqb (fst t) (fst c) && (if fst t then str_eqb (snd t) (snd c) else eq_ci (strip_raw (snd t)) (strip_raw (snd c))).
Definition seg_tok (t c : seg) : bool :=
  Bool.eqb (fst t) (fst c) && (if fst t then str_eqb (snd t) (snd c) else toks_eqb (tokenize (strip_raw (snd t))) (tokenize (strip_raw (snd c)))).
Definition seg_collapsed (t c : seg) : bool :=
  Bool.eqb (fst t) (fst c) && (if fst t then str_eqb (snd t) (snd c) else str_eqb (collapse (strip_raw (snd t))) (collapse (strip_raw (snd c)))).
Definition nonempty (s : list N) : bool := match s with [] => false | _ => true end.
Definition seg_key_for_index (t c : seg) : bool :=
  match fst t, fst c with
  | true, true => str_eqb (snd t) (snd c)
  | false, false => eq_ci (strip_raw (snd t)) (strip_raw (snd c))
  | false, true => nonempty (snd t) && nonempty (snd c)
  | true, false => false
  end.

Fixpoint path_rel (r : seg -> seg -> bool) (t c : path) : bool :=
  match t, c with
  | [], [] => true
  | x :: t', y :: c' => r x y && path_rel r t' c'
  | _, _ => false
  end.

Definition seg_eqb (a b : seg) : bool := Bool.eqb (fst a) (fst b) && str_eqb (snd a) (snd b).
Definition path_eqb := path_rel seg_eqb.

Definition leaf_name (p : path) : list N := match rev p with s :: _ => snd s | [] => [] end.

(* find_unique_by *)
Definition find_unique (r : seg -> seg -> bool) (target : path) (cands : list (path * N)) : option (N * list N) :=
  match target with
  | [] => None
  | _ => match filter (fun c => path_rel r target (fst c)) cands with
         | [c] => Some (snd c, leaf_name (fst c))
         | _ => None
         end
  end.

Definition orelse {A} (a b : option A) : option A := match a with Some _ => a | None => b end.

(* PathMap::search on a map given as an association list with distinct paths *)
Definition search (target : path) (cands : list (path * N)) : option (N * list N) :=
  match filter (fun c => path_eqb target (fst c)) cands with
  | c :: _ => match target with [] => None | _ => Some (snd c, leaf_name target) end
  | [] =>
    orelse (find_unique seg_ci target cands)
      (orelse (find_unique seg_tok target cands)
         (orelse (find_unique seg_collapsed target cands)
            (find_unique seg_key_for_index target cands)))
  end.
