(* Deser.v -- executable model of src/de.rs: the Events abstraction (LiveEvents | ReplayEvents),
   capture_node + fingerprints, merge expansion, the MA/SA/EA/VA accessors with the duplicate-key
   policy, and YamlDeserializer::deserialize_* driven by a run-time type description [ty] whose
   visitor behaviour is that of the harness' run-time seeds (DESIGN.md 4.5).  Definitions only.

   Recursion follows both the event stream and the type, so every recursive function takes fuel;
   [DFuel] is a distinct outcome (the correspondence never observes it; theorems exclude it). *)
From SS Require Export Model.Live.
Local Open Scope N_scope.

(* ---------- run-time type descriptions and values ---------- *)
Inductive ty :=
| TBool | TInt (signed : bool) (bits : N) | TF64 | TChar | TString | TStr | TBytes
| TUnit | TUnitStruct
| TOption (t : ty) | TSeq (t : ty) | TTuple (ts : list ty)
| TMap (k v : ty)               (* overwriting map *)
| TPairs (k v : ty)             (* order-preserving list of all pairs *)
| TStruct (fields : list (str * ty)) (deny_unknown : bool)
| TEnum (name : str) (variants : list (str * vshape))
| TAny | TIgnored
| TSpanned (t : ty)             (* serde_saphyr::Spanned<T> *)
| TTree                         (* untyped tree whose every child is a Spanned<tree> *)
with vshape :=
| VsUnit | VsNewtype (t : ty) | VsTuple (ts : list ty) | VsStruct (fields : list (str * ty)).

Inductive val :=
| VNull | VBool (b : bool) | VInt (z : Z) | VFloat (c : fclass) | VChar (c : N) | VStr (s : str)
| VBytes (b : list N) | VUnit | VNone | VSome (v : val)
| VSeq (l : list val) | VMap (l : list (val * val))
| VStruct (l : list (str * val)) | VVariant (name : str) (payload : val)
| VSpanned (referenced defined : loc) (v : val).

Inductive dup_policy := DupError | DupFirstWins | DupLastWins.
Record dcfg := mkDcfg { dc : cfg; dc_dup : dup_policy }.

(* ---------- Events: live pump or replay buffer ---------- *)
Inductive src :=
| SLive (s : live) (rest : list raw_item) (open : N)   (* open = LiveEvents::open_containers *)
| SReplay (prev : option ev) (buf : list ev) (ref : option loc).

Inductive nres :=
| NSome (e : ev) (x : src) | NNone (x : src) | NErr (e : err).

Definition src_next (x : src) : nres :=
  match x with
  | SLive s rest open =>
    match live_next s rest with
    | Yield e s' rest' =>
      let open' := match e with
                   | ESeqStart _ _ _ _ | EMapStart _ _ => open + 1
                   | ESeqEnd _ | EMapEnd _ => open - 1          (* saturating_sub *)
                   | _ => open
                   end in
      NSome e (SLive s' rest' open')
    | Eos s' rest' => NNone (SLive s' rest' open)
    | Fail e _ _ => NErr e
    end
  | SReplay prev buf ref =>
    match buf with
    | [] => NNone x
    | e :: r => NSome e (SReplay (Some e) r ref)
    end
  end.

Definition src_peek (x : src) : nres :=
  match x with
  | SLive s rest open =>
    match live_peek s rest with
    | Yield e s' rest' => NSome e (SLive s' rest' open)
    | Eos s' rest' => NNone (SLive s' rest' open)
    | Fail e _ _ => NErr e
    end
  | SReplay prev buf ref =>
    match buf with
    | [] => NNone x
    | e :: _ => NSome e x
    end
  end.

Definition src_last_location (x : src) : loc :=
  match x with
  | SLive s _ _ => lv_last s
  | SReplay prev buf _ =>
    match prev with
    | Some e => ev_loc e
    | None => match buf with e :: _ => ev_loc e | [] => loc_unknown end
    end
  end.

Definition src_reference_location (x : src) : loc :=
  match x with
  | SLive s _ _ => reference_location s
  | SReplay prev buf ref =>
    match ref with
    | Some l => l
    | None => match buf with e :: _ => ev_loc e | [] => src_last_location x end
    end
  end.

Definition replay_new (buf : list ev) : src := SReplay None buf None.
Definition replay_with_reference (buf : list ev) (r : loc) : src := SReplay None buf (Some r).

(* ---------- errors ---------- *)
Definition loc_known (l : loc) : bool := negb (loc_eqb l loc_unknown).

Definition err_has_location (e : err) : bool :=
  match e with
  | Err _ l => loc_known l
  | ErrBudget _ l => loc_known l
  | ErrAlias r d => loc_known r || loc_known d
  | ErrIO => false
  end.

(* fn attach_alias_locations_if_missing *)
Definition attach_alias_locations (e : err) (reference defined : loc) : err :=
  if loc_known reference && loc_known defined && negb (loc_eqb reference defined)
  then ErrAlias reference defined
  else if err_has_location e then e
  else err_with_location e (if loc_known reference then reference else defined).

(* ---------- fingerprints and captured nodes ---------- *)
Inductive fp :=
| FScalar (v : str) (tag : N)
| FSeq (l : list fp)
| FMap (l : list (fp * fp)).

Fixpoint fp_eqb (a b : fp) {struct a} : bool :=
  match a, b with
  | FScalar v t, FScalar v' t' => str_eqb v v' && (t =? t')
  | FSeq l, FSeq l' =>
    (fix go (x y : list fp) : bool :=
       match x, y with
       | [], [] => true
       | p :: x', q :: y' => fp_eqb p q && go x' y'
       | _, _ => false
       end) l l'
  | FMap l, FMap l' =>
    (fix go (x y : list (fp * fp)) : bool :=
       match x, y with
       | [], [] => true
       | (k, v) :: x', (k', v') :: y' => fp_eqb k k' && fp_eqb v v' && go x' y'
       | _, _ => false
       end) l l'
  | _, _ => false
  end.

Definition fp_mem (f : fp) (l : list fp) : bool := existsb (fp_eqb f) l.

Record keynode := mkKN { kn_fp : fp; kn_events : list ev; kn_loc : loc }.
Record pending_entry := mkPE { pe_key : keynode; pe_val : keynode; pe_ref : loc }.

Inductive cres := COk (k : keynode) (x : src) | CErr (e : err) | CFuel.

(* fn capture_node; the two loops are separate functions of the same fuel *)
Fixpoint capture_node (fuel : nat) (x : src) : cres :=
  match fuel with
  | O => CFuel
  | S f =>
    match src_next x with
    | NErr e => CErr e
    | NNone x' => CErr (Err E_Eof (src_last_location x'))
    | NSome e x1 =>
      match e with
      | EScalar v tag _ _ _ l => COk (mkKN (FScalar v tag) [e] l) x1
      | ESeqEnd l | EMapEnd l => CErr (Err E_UnexpectedContainerEndWhileReadingKeyNode l)
      | ESeqStart _ _ _ l => capture_items f x1 [e] [] l
      | EMapStart _ l => capture_entries f x1 [e] [] l
      end
    end
  end
with capture_items (fuel : nat) (x : src) (evs : list ev) (fps : list fp) (l : loc) : cres :=
  match fuel with
  | O => CFuel
  | S f =>
    match src_peek x with
    | NErr e => CErr e
    | NNone x' => CErr (Err E_Eof (src_last_location x'))
    | NSome (ESeqEnd el) x' =>
      match src_next x' with
      | NSome _ x'' | NNone x'' => COk (mkKN (FSeq (rev fps)) (evs ++ [ESeqEnd el]) l) x''
      | NErr e => CErr e
      end
    | NSome _ x' =>
      match capture_node f x' with
      | COk k x'' => capture_items f x'' (evs ++ kn_events k) (kn_fp k :: fps) l
      | other => other
      end
    end
  end
with capture_entries (fuel : nat) (x : src) (evs : list ev) (fps : list (fp * fp)) (l : loc) : cres :=
  match fuel with
  | O => CFuel
  | S f =>
    match src_peek x with
    | NErr e => CErr e
    | NNone x' => CErr (Err E_Eof (src_last_location x'))
    | NSome (EMapEnd el) x' =>
      match src_next x' with
      | NSome _ x'' | NNone x'' => COk (mkKN (FMap (rev fps)) (evs ++ [EMapEnd el]) l) x''
      | NErr e => CErr e
      end
    | NSome _ x' =>
      match capture_node f x' with
      | COk k x'' =>
        match capture_node f x'' with
        | COk v x3 => capture_entries f x3 (evs ++ kn_events k ++ kn_events v) ((kn_fp k, kn_fp v) :: fps) l
        | other => other
        end
      | other => other
      end
    end
  end.

(* fn is_merge_key *)
Definition is_merge_key (k : keynode) : bool :=
  match kn_events k with
  | [EScalar v tag _ Plain _ _] => (tag =? TAG_None) && str_eqb v [60; 60]
  | _ => false
  end.

Inductive pres := POk (l : list pending_entry) (x : src) | PErr (e : err) | PFuel.

(* the value of a merge key: null-like by text and style alone *)
Definition ev_merge_nullish (e : ev) : bool :=
  match e with EScalar v _ _ st _ _ => scalar_is_nullish v st | _ => false end.

(* a "null document" (skipped by from_multiple and the iterator): a null-like root scalar that is not tagged !!str *)
Definition ev_scalar_nullish (e : ev) : bool :=
  match e with EScalar v tag _ st _ _ => negb (tag =? TAG_String) && scalar_is_nullish v st | _ => false end.

(* fn pending_entries_from_events / pending_entries_from_live_events / collect_entries_from_map,
   mutually recursive through fuel.  [batches] are concatenated last-to-first. *)
Fixpoint pending_from_events (fuel : nat) (events : list ev) (location reference : loc) : pres :=
  match fuel with
  | O => PFuel
  | S f =>
    let x := replay_with_reference events reference in
    match events with
    | [] => PErr (Err E_Eof location)
    | e :: _ =>
      match e with
      | EScalar _ _ _ _ _ l => if ev_merge_nullish e then POk [] x else PErr (attach_alias_locations (Err E_MergeValueNotMapOrSeqOfMaps l) reference l)
      | EMapStart _ _ => collect_entries f x reference
      | ESeqStart _ _ _ _ =>
        match src_next x with
        | NSome _ x1 => seq_batches f f x1 []
        | NNone _ => PErr (Err E_Eof location)
        | NErr e => PErr e
        end
      | ESeqEnd l | EMapEnd l => PErr (Err E_MergeValueNotMapOrSeqOfMaps l)
      end
    end
  end
with seq_batches (fuel g : nat) (x : src) (batches : list (list pending_entry)) : pres :=
  match fuel, g with
  | S f, S g' =>
    match src_peek x with
    | NErr e => PErr e
    | NNone x' => PErr (Err E_Eof (src_last_location x'))
    | NSome (ESeqEnd _) x' =>
      match src_next x' with
      | NErr e => PErr e
      | NSome _ x'' | NNone x'' => POk (concat batches) x''     (* batches is kept newest-first *)
      end
    | NSome _ x' =>
      let element_ref := src_reference_location x' in
      match capture_node f x' with
      | CErr e => PErr e
      | CFuel => PFuel
      | COk k x'' =>
        match pending_from_events f (kn_events k) (kn_loc k) element_ref with
        | POk l _ => seq_batches f g' x'' (l :: batches)
        | other => other
        end
      end
    end
  | _, _ => PFuel
  end
with pending_from_live (fuel : nat) (x : src) (merge_ref : loc) : pres :=
  match fuel with
  | O => PFuel
  | S f =>
    match src_peek x with
    | NErr e => PErr e
    | NNone x' => PErr (Err E_Eof (src_last_location x'))
    | NSome e x' =>
      match e with
      | EScalar _ _ _ _ _ l =>
        if ev_merge_nullish e then
          match src_next x' with
          | NErr e' => PErr e'
          | NSome _ x'' | NNone x'' => POk [] x''
          end
        else PErr (attach_alias_locations (Err E_MergeValueNotMapOrSeqOfMaps l) merge_ref l)
      | EMapStart _ _ =>
        match capture_node f x' with
        | CErr e' => PErr e'
        | CFuel => PFuel
        | COk k x'' =>
          match pending_from_events f (kn_events k) (kn_loc k) merge_ref with
          | POk l _ => POk l x''
          | other => other
          end
        end
      | ESeqStart _ _ _ _ =>
        match src_next x' with
        | NErr e' => PErr e'
        | NNone x'' => PErr (Err E_Eof (src_last_location x''))
        | NSome _ x'' => seq_batches f f x'' []
        end
      | ESeqEnd l | EMapEnd l => PErr (Err E_MergeValueNotMapOrSeqOfMaps l)
      end
    end
  end
with collect_entries (fuel : nat) (x : src) (reference : loc) : pres :=
  match fuel with
  | O => PFuel
  | S f =>
    match src_next x with
    | NErr e => PErr e
    | NSome (EMapStart _ _) x1 => collect_loop f f x1 reference [] []
    | NSome _ x1 | NNone x1 => PErr (Err E_MergeValueNotMapOrSeqOfMaps (src_last_location x1))
    end
  end
with collect_loop (fuel g : nat) (x : src) (reference : loc)
                  (fields : list pending_entry) (merges : list (list pending_entry)) : pres :=
  match fuel, g with
  | S f, S g' =>
    match src_peek x with
    | NErr e => PErr e
    | NNone x' => PErr (Err E_Eof (src_last_location x'))
    | NSome (EMapEnd _) x' =>
      match src_next x' with
      | NErr e => PErr e
      | NSome _ x'' | NNone x'' => POk (rev fields ++ concat merges) x''   (* merges newest-first *)
      end
    | NSome _ x' =>
      match capture_node f x' with
      | CErr e => PErr e
      | CFuel => PFuel
      | COk k x1 =>
        if is_merge_key k then
          match src_peek x1 with
          | NErr e => PErr e
          | NNone x2 | NSome _ x2 =>
            match pending_from_live f x2 (src_reference_location x2) with
            | POk l x3 => collect_loop f g' x3 reference fields (l :: merges)
            | other => other
            end
          end
        else
          match capture_node f x1 with
          | CErr e => PErr e
          | CFuel => PFuel
          | COk v x2 => collect_loop f g' x2 reference (mkPE k v reference :: fields) merges
          end
      end
    end
  | _, _ => PFuel
  end.

(* ---------- MapAccess state ---------- *)
Record ma := mkMA {
  ma_seen : list fp;
  ma_pending : list pending_entry;            (* VecDeque, head = front *)
  ma_merge_stack : list (list pending_entry); (* head = top *)
  ma_flushing : bool;
  ma_pending_value : option (list ev * loc)
}.
Definition ma_new : ma := mkMA [] [] [] false None.

(* fn enqueue_next_merge_batch: pops empty batches; Some = something was queued *)
Fixpoint next_merge_batch (stack : list (list pending_entry))
  : option (list pending_entry * list (list pending_entry)) :=
  match stack with
  | [] => None
  | [] :: r => next_merge_batch r
  | b :: r => Some (b, r)
  end.

(* fn skip_one_node *)
Inductive sres2 := SkOk (x : src) | SkErr (e : err) | SkFuel.
Fixpoint skip_depth (g : nat) (x : src) (depth : N) : sres2 :=
  match g with
  | O => SkFuel
  | S g' =>
    if depth =? 0 then SkOk x else
    match src_next x with
    | NErr e => SkErr e
    | NNone x' => SkErr (Err E_Eof (src_last_location x'))
    | NSome (ESeqStart _ _ _ _) x' | NSome (EMapStart _ _) x' => skip_depth g' x' (depth + 1)
    | NSome (ESeqEnd _) x' | NSome (EMapEnd _) x' => skip_depth g' x' (depth - 1)
    | NSome (EScalar _ _ _ _ _ _) x' => skip_depth g' x' depth
    end
  end.
Definition skip_one_node (g : nat) (x : src) : sres2 :=
  match src_next x with
  | NErr e => SkErr e
  | NNone x' => SkErr (Err E_Eof (src_last_location x'))
  | NSome (EScalar _ _ _ _ _ _) x' => SkOk x'
  | NSome (ESeqStart _ _ _ _) x' | NSome (EMapStart _ _) x' => skip_depth g x' 1
  | NSome (ESeqEnd l) _ | NSome (EMapEnd l) _ => SkErr (Err E_UnexpectedContainerEndWhileSkippingNode l)
  end.

(* the explicit-empty-key special case of next_key_seed *)
Definition fp_nullish_scalar (f : fp) : bool :=
  match f with
  | FScalar v tag => (tag =? TAG_Null) || (match v with [] => true | _ => false end)
                     || str_eqb v s_tilde || eq_ignore_ascii_case v s_null
  | _ => false
  end.
Definition kemn_direct (f : fp) : bool := match f with FMap [] => true | _ => false end.
Definition kemn_one_entry_nullish (f : fp) : bool :=
  match f with FMap [(k, _)] => fp_nullish_scalar k | _ => false end.

(* fn skip_one_node_len on a recorded slice *)
Fixpoint node_len_depth (evs : list ev) (depth : N) (acc : N) : option N :=
  match evs with
  | [] => None
  | e :: r =>
    match e with
    | ESeqStart _ _ _ _ | EMapStart _ _ => node_len_depth r (depth + 1) (acc + 1)
    | ESeqEnd _ | EMapEnd _ => if depth =? 1 then Some (acc + 1) else node_len_depth r (depth - 1) (acc + 1)
    | EScalar _ _ _ _ _ _ => node_len_depth r depth (acc + 1)
    end
  end.
Definition node_len (evs : list ev) : option N :=
  match evs with
  | EScalar _ _ _ _ _ _ :: _ => Some 1
  | ESeqStart _ _ _ _ :: r | EMapStart _ _ :: r => node_len_depth r 1 1
  | _ => None
  end.
(* fn one_entry_map_spans: (key events, value events) of a recorded {k: v} *)
Definition one_entry_map_split (evs : list ev) : option (list ev * list ev) :=
  match evs with
  | EMapStart _ _ :: inner =>
    match node_len inner with
    | None => None
    | Some kl =>
      let rest := skipn (N.to_nat kl) inner in
      match node_len rest with
      | None => None
      | Some vl =>
        match skipn (N.to_nat vl) rest with
        | [EMapEnd _] => Some (firstn (N.to_nat kl) inner, firstn (N.to_nat vl) rest)
        | _ => None
        end
      end
    end
  | _ => None
  end.

Inductive kres :=
| KKey (key_events : list ev) (kemn : bool) (key_loc : loc) (m : ma) (x : src)
| KEnd (m : ma) (x : src)
| KErr (e : err)
| KFuel.

Definition first_last (evs : list ev) : list ev :=
  match evs with
  | [] => []
  | e :: _ => [e; last evs e]
  end.

(* fn MA::next_key_seed up to (and excluding) the deserialization of the key itself *)
Fixpoint ma_next_key (fuel : nat) (c : dcfg) (m : ma) (x : src) : kres :=
  match fuel with
  | O => KFuel
  | S f =>
    match ma_pending m with
    | entry :: pend =>
      let m1 := mkMA (ma_seen m) pend (ma_merge_stack m) (ma_flushing m) (ma_pending_value m) in
      let fpk := kn_fp (pe_key entry) in
      let dup := fp_mem fpk (ma_seen m) in
      let deliver (_ : unit) :=
        let events := kn_events (pe_key entry) in
        let value_events := kn_events (pe_val entry) in
        let '(events', value_events', kemn) :=
          if kemn_direct fpk then (events, value_events, true)
          else if kemn_one_entry_nullish fpk then
            match one_entry_map_split events with
            | Some (_, inner_value) => (first_last events, inner_value, true)
            | None => (events, value_events, false)
            end
          else (events, value_events, false) in
        KKey events' kemn (kn_loc (pe_key entry))
             (mkMA (fpk :: ma_seen m1) (ma_pending m1) (ma_merge_stack m1) (ma_flushing m1)
                   (Some (value_events', pe_ref entry))) x in
      if ma_flushing m then
        (if dup then ma_next_key f c m1 x else deliver tt)
      else
        match dc_dup c with
        | DupError => if dup then KErr (Err E_DuplicateMappingKey (kn_loc (pe_key entry))) else deliver tt
        | DupFirstWins => if dup then ma_next_key f c m1 x else deliver tt
        | DupLastWins => deliver tt
        end
    | [] =>
      if ma_flushing m then
        match next_merge_batch (ma_merge_stack m) with
        | Some (b, stack') => ma_next_key f c (mkMA (ma_seen m) b stack' true (ma_pending_value m)) x
        | None => KEnd (mkMA (ma_seen m) [] [] false (ma_pending_value m)) x
        end
      else
        match src_peek x with
        | NErr e => KErr e
        | NNone x' => KErr (Err E_Eof (src_last_location x'))
        | NSome (EMapEnd _) x' =>
          match src_next x' with
          | NErr e => KErr e
          | NSome _ x'' | NNone x'' =>
            match ma_merge_stack m with
            | [] => KEnd m x''
            | _ =>
              match next_merge_batch (ma_merge_stack m) with
              | Some (b, stack') => ma_next_key f c (mkMA (ma_seen m) b stack' true (ma_pending_value m)) x''
              | None => KEnd (mkMA (ma_seen m) [] [] false (ma_pending_value m)) x''
              end
            end
          end
        | NSome _ x' =>
          match capture_node f x' with
          | CErr e => KErr e
          | CFuel => KFuel
          | COk key x1 =>
            if is_merge_key key then
              match src_peek x1 with
              | NErr e => KErr e
              | NNone x2 | NSome _ x2 =>
                match pending_from_live f x2 (src_reference_location x2) with
                | PErr e => KErr e
                | PFuel => KFuel
                | POk entries x3 =>
                  let stack := match entries with [] => ma_merge_stack m | _ => entries :: ma_merge_stack m end in
                  ma_next_key f c (mkMA (ma_seen m) [] stack false (ma_pending_value m)) x3
                end
              end
            else
              let fpk := kn_fp key in
              let dup := fp_mem fpk (ma_seen m) in
              let proceed (_ : unit) :=
                if kemn_one_entry_nullish fpk then
                  (* slow path: capture the value and go through the pending queue *)
                  match src_peek x1 with
                  | NErr e => KErr e
                  | NNone x2 | NSome _ x2 =>
                    let reference := src_reference_location x2 in
                    match capture_node f x2 with
                    | CErr e => KErr e
                    | CFuel => KFuel
                    | COk v x3 =>
                      ma_next_key f c (mkMA (ma_seen m) [mkPE key v reference] (ma_merge_stack m) false
                                            (ma_pending_value m)) x3
                    end
                  end
                else
                  KKey (kn_events key) (kemn_direct fpk) (kn_loc key)
                       (mkMA (fpk :: ma_seen m) [] (ma_merge_stack m) false None) x1 in
              match dc_dup c with
              | DupError => if dup then KErr (Err E_DuplicateMappingKey (kn_loc key)) else proceed tt
              | DupFirstWins =>
                if dup then
                  match skip_one_node f x1 with
                  | SkErr e => KErr e
                  | SkFuel => KFuel
                  | SkOk x2 => ma_next_key f c m x2
                  end
                else proceed tt
              | DupLastWins => proceed tt
              end
          end
        end
    end
  end.

(* ---------- the deserializer ---------- *)
Inductive dres := DOk (v : val) (x : src) | DErr (e : err) | DFuel.

Definition take_scalar (x : src) (what : eclass) : (ev * src) + err :=
  match src_next x with
  | NErr e => inr e
  | NNone x' => inr (Err E_Eof (src_last_location x'))
  | NSome e x' =>
    match e with
    | EScalar _ _ _ _ _ _ => inl (e, x')
    | _ => inr (Err what (ev_loc e))
    end
  end.

Definition scalar_ev_of (e : ev) : scalar_ev :=
  match e with
  | EScalar v tag _ st _ _ => mkScalar v st tag
  | _ => mkScalar [] Plain TAG_None
  end.

Fixpoint sres_val (any : bool) (r : sres) : option val :=
  match r with
  | RBool b => Some (VBool b) | RInt z => Some (VInt z) | RFloat c => Some (VFloat c)
  | RChar c => Some (VChar c) | RStr s => Some (VStr s) | RBytes b => Some (VBytes b)
  | RUnit => Some (if any then VNull else VUnit) | RNone => Some VNone
  | RSome r' => option_map VSome (sres_val any r')
  | RErr _ => None
  end.
Definition sres_to_dres (any : bool) (r : sres) (l : loc) (x : src) : dres :=
  match sres_val any r with
  | Some v => DOk v x
  | None => match r with RErr c => DErr (Err c l) | _ => DErr (Err E_Message l) end
  end.

(* a leaf scalar target handled by Scalars.deser_scalar *)
Definition scalar_target (t : ty) : option target :=
  match t with
  | TBool => Some TgBool | TInt s b => Some (TgInt s b) | TF64 => Some TgF64 | TChar => Some TgChar
  | _ => None
  end.

Fixpoint assoc_str {A} (k : str) (l : list (str * A)) : option A :=
  match l with [] => None | (k', v) :: r => if str_eqb k k' then Some v else assoc_str k r end.

Fixpoint val_eqb (a b : val) {struct a} : bool :=
  match a, b with
  | VNull, VNull | VUnit, VUnit | VNone, VNone => true
  | VBool x, VBool y => Bool.eqb x y
  | VInt x, VInt y => Z.eqb x y
  | VFloat x, VFloat y =>
    match x, y with FNan, FNan | FFinite, FFinite => true | FInf p, FInf q => Bool.eqb p q | _, _ => false end
  | VChar x, VChar y => x =? y
  | VStr x, VStr y | VBytes x, VBytes y => str_eqb x y
  | VSome x, VSome y => val_eqb x y
  | VSeq l, VSeq l' =>
    (fix go (x y : list val) : bool :=
       match x, y with [], [] => true | p :: x', q :: y' => val_eqb p q && go x' y' | _, _ => false end) l l'
  | VMap l, VMap l' =>
    (fix go (x y : list (val * val)) : bool :=
       match x, y with
       | [], [] => true
       | (k, v) :: x', (k', v') :: y' => val_eqb k k' && val_eqb v v' && go x' y'
       | _, _ => false
       end) l l'
  | VStruct l, VStruct l' =>
    (fix go (x y : list (str * val)) : bool :=
       match x, y with
       | [], [] => true
       | (k, v) :: x', (k', v') :: y' => str_eqb k k' && val_eqb v v' && go x' y'
       | _, _ => false
       end) l l'
  | VVariant n v, VVariant n' v' => str_eqb n n' && val_eqb v v'
  | VSpanned r d v, VSpanned r' d' v' => loc_eqb r r' && loc_eqb d d' && val_eqb v v'
  | _, _ => false
  end.

(* the overwriting map target: insert keeps the position of the first occurrence *)
Fixpoint map_insert (k v : val) (l : list (val * val)) : list (val * val) :=
  match l with
  | [] => [(k, v)]
  | (k', v') :: r => if val_eqb k k' then (k, v) :: r else (k', v') :: map_insert k v r
  end.

(* fn simple_tagged_enum_name *)
Definition s_tag_yaml_prefix : str :=
  [116; 97; 103; 58; 121; 97; 109; 108; 46; 111; 114; 103; 44; 50; 48; 48; 50; 58].
Fixpoint trim_start_bang (s : str) : str := match s with 33 :: r => trim_start_bang r | _ => s end.
Definition strip_suffix_gt (s : str) : option str :=
  match rev s with 62 :: r => Some (rev r) | _ => None end.
Definition simple_tagged_enum_name (raw_tag : option str) (tag : N) : option str :=
  if negb (tag =? TAG_Other) then None else
  match raw_tag with
  | None => None
  | Some raw =>
    let c1 := match strip_prefix [33; 60] raw with
              | Some inner => match strip_suffix_gt inner with Some i => i | None => raw end
              | None => raw
              end in
    let c2 := match strip_prefix s_tag_yaml_prefix c1 with Some r => r | None => c1 end in
    let c3 := trim_start_bang c2 in
    if (match c3 with [] => true | _ => false end) || existsb (fun c => (c =? 58) || (c =? 33)) c3
    then None else Some c3
  end.

Definition variant_names (vs : list (str * vshape)) : list str := map fst vs.

(* collect exactly the events of one container whose start was just consumed (TaggedEA, SeqStart) *)
Fixpoint collect_balanced (g : nat) (x : src) (depth : N) (acc : list ev) : (list ev * src) + err + unit :=
  match g with
  | O => inr tt
  | S g' =>
    if depth =? 0 then inl (inl (rev acc, x)) else
    match src_next x with
    | NErr e => inl (inr e)
    | NNone x' => inl (inr (Err E_Eof (src_last_location x')))
    | NSome e x' =>
      match e with
      | ESeqStart _ _ _ _ | EMapStart _ _ => collect_balanced g' x' (depth + 1) (e :: acc)
      | ESeqEnd _ | EMapEnd _ => collect_balanced g' x' (depth - 1) (e :: acc)
      | EScalar _ _ _ _ _ _ => collect_balanced g' x' depth (e :: acc)
      end
    end
  end.

Definition untag (e : ev) : ev :=
  match e with
  | EScalar v _ _ st a l => EScalar v TAG_None None st a l
  | ESeqStart a _ _ l => ESeqStart a TAG_None None l
  | other => other
  end.

(* what a sequence visitor asks for: every element as [t], or exactly the listed types *)
Inductive sched := SchedAll (t : ty) | SchedList (ts : list ty).
Definition sched_next (sc : sched) : option (ty * sched) :=
  match sc with
  | SchedAll t => Some (t, sc)
  | SchedList [] => None
  | SchedList (t :: r) => Some (t, SchedList r)
  end.
Definition sched_missing (sc : sched) : bool :=       (* the visitor still wants elements *)
  match sc with SchedList (_ :: _) => true | _ => false end.

(* what a map visitor does with the entries *)
Inductive mmode :=
| MMap (k v : ty) (overwrite : bool)
| MStruct (fields : list (str * ty)) (deny_unknown : bool).

Definition expect_map_end (x : src) : (src + err) :=
  match src_next x with
  | NErr e => inr e
  | NNone x' => inr (Err E_Eof (src_last_location x'))
  | NSome (EMapEnd _) x' => inl x'
  | NSome e _ => inr (Err E_ExpectedMappingEndAfterEnumVariantValue (ev_loc e))
  end.

Fixpoint struct_finish (fields : list (str * ty)) (got : list (str * val)) : (list (str * val)) + err :=
  match fields with
  | [] => inl []
  | (n, t) :: r =>
    match struct_finish r got with
    | inr e => inr e
    | inl rest =>
      match assoc_str n got with
      | Some v => inl ((n, v) :: rest)
      | None => match t with
                | TOption _ => inl ((n, VNone) :: rest)
                | _ => inr (Err E_SerdeMissingField loc_unknown)
                end
      end
    end
  end.
(* the first missing field in declaration order is the one reported; struct_finish above finds the
   last -- only the class is compared, so this is immaterial *)

Definition key_err (e : err) (l : loc) : err := if err_has_location e then e else err_with_location e l.

(* fn deserialize_unit *)
Definition deser_unit (x : src) : dres :=
  match src_peek x with
  | NErr e => DErr e
  | NNone x' => DOk VUnit x'
  | NSome (EScalar v _ _ st _ l) x' =>
    if scalar_is_nullish v st then
      match src_next x' with
      | NErr e => DErr e
      | NSome _ x'' | NNone x'' => DOk VUnit x''
      end
    else DErr (Err E_UnexpectedValueForUnit l)
  | NSome (EMapEnd _) x' | NSome (ESeqEnd _) x' => DOk VUnit x'
  | NSome e _ => DErr (Err E_UnexpectedValueForUnit (ev_loc e))
  end.

(* ByteSeq: each byte through serde's U8Deserializer into the element visitor *)
Fixpoint byte_seq (data : list N) (sc : sched) (x : src) (acc : list val) {struct data} : dres :=
  match sched_next sc with
  | None => DOk (VSeq (rev acc)) x
  | Some (et, sc') =>
    match data with
    | [] => if sched_missing sc then DErr (Err E_Message loc_unknown) else DOk (VSeq (rev acc)) x
    | b :: r =>
      match et with
      | TInt sg bits =>
        if (if sg then (Z.of_N b <=? smax bits)%Z else b <=? umax bits)
        then byte_seq r sc' x (VInt (Z.of_N b) :: acc)
        else DErr (Err E_SerdeInvalidValue loc_unknown)
      | TAny => byte_seq r sc' x (VInt (Z.of_N b) :: acc)
      | TIgnored => byte_seq r sc' x (VNull :: acc)
      | _ => DErr (Err E_SerdeInvalidType loc_unknown)
      end
    end
  end.

Fixpoint deser (fuel : nat) (c : dcfg) (kemn : bool) (t : ty) (x : src) {struct fuel} : dres :=
  match fuel with
  | O => DFuel
  | S f =>
    match t with
    | TBool | TInt _ _ | TF64 | TChar | TString | TStr =>
      let tg := match t with
                | TBool => TgBool | TInt s b => TgInt s b | TF64 => TgF64 | TChar => TgChar
                | TString => TgString | _ => TgStr
                end in
      match take_scalar x E_Unexpected with
      | inr e => DErr e
      | inl (e, x') => sres_to_dres false (deser_scalar (dc c) tg (scalar_ev_of e)) (ev_loc e) x'
      end
    | TBytes =>
      match src_peek x with
      | NErr e => DErr e
      | NNone x' => DErr (Err E_Eof (src_last_location x'))
      | NSome (EScalar v tag _ _ _ l) x' =>
        if tag =? TAG_Binary then
          match src_next x' with
          | NErr e => DErr e
          | NNone _ => DErr (Err E_Eof l)
          | NSome _ x'' =>
            match decode_base64_yaml (utf8_enc v) with
            | Some d => DOk (VBytes d) x''
            | None => DErr (Err E_InvalidBinaryBase64 l)
            end
          end
        else DErr (Err E_BytesNotSupportedMissingBinaryTag l)
      | NSome (ESeqStart _ _ _ _) x' =>
        match src_next x' with
        | NErr e => DErr e
        | NNone x'' => DErr (Err E_Eof (src_last_location x''))
        | NSome _ x1 => bytes_loop f c x1 []
        end
      | NSome e _ => DErr (Err E_Unexpected (ev_loc e))
      end
    | TUnit => deser_unit x
    | TUnitStruct =>
      match src_peek x with
      | NErr e => DErr e
      | NSome (EMapStart _ _) x' =>
        match src_next x' with
        | NErr e => DErr e
        | NNone x1 => DErr (Err E_Eof (src_last_location x1))
        | NSome _ x1 =>
          match src_peek x1 with
          | NErr e => DErr e
          | NNone x2 => DErr (Err E_Eof (src_last_location x2))
          | NSome (EMapEnd _) x2 =>
            match src_next x2 with
            | NErr e => DErr e
            | NSome _ x3 | NNone x3 => DOk VUnit x3
            end
          | NSome e _ => DErr (Err E_ExpectedEmptyMappingForUnitStruct (ev_loc e))
          end
        end
      | NSome _ x' | NNone x' => deser_unit x'
      end
    | TOption t' =>
      if kemn then
        match src_next x with
        | NErr e => DErr e
        | NNone x1 => DErr (Err E_Eof (src_last_location x1))
        | NSome (EMapStart _ _) x1 =>
          match src_next x1 with
          | NErr e => DErr e
          | NNone x2 => DErr (Err E_Eof (src_last_location x2))
          | NSome (EMapEnd _) x2 => DOk VNone x2
          | NSome e _ => DErr (Err E_Unexpected (ev_loc e))
          end
        | NSome e _ => DErr (Err E_Unexpected (ev_loc e))
        end
      else
      match src_peek x with
      | NErr e => DErr e
      | NNone x' => DOk VNone x'
      | NSome (EScalar v tag _ st _ _) x' =>
        if (tag =? TAG_Null) || (negb (tag =? TAG_String) && negb (tag =? TAG_Binary) && scalar_is_nullish_for_option v st) then
          match src_next x' with
          | NErr e => DErr e
          | NSome _ x'' | NNone x'' => DOk VNone x''
          end
        else match deser f c kemn t' x' with
             | DOk v x'' => DOk (VSome v) x''
             | other => other
             end
      | NSome (EMapEnd _) x' | NSome (ESeqEnd _) x' => DOk VNone x'
      | NSome _ x' =>
        match deser f c kemn t' x' with
        | DOk v x'' => DOk (VSome v) x''
        | other => other
        end
      end
    | TSeq t' => deser_seq f c (SchedAll t') x
    | TTuple ts => deser_seq f c (SchedList ts) x
    | TMap k v => deser_map f c (MMap k v true) x
    | TPairs k v => deser_map f c (MMap k v false) x
    | TStruct fields deny =>
      match deser_map f c (MStruct fields deny) x with
      | DOk v x' => DOk v x'
      | other => other
      end
    | TEnum name variants => deser_enum f c name variants x
    | TSpanned t' =>
      (* fn deserialize_yaml_spanned: both locations are captured before the node is consumed *)
      match src_peek x with
      | NErr e => DErr e
      | NSome e x' =>
        match deser f c false t' x' with
        | DOk v x2 => DOk (VSpanned (src_reference_location x') (ev_loc e) v) x2
        | other => other
        end
      | NNone x' =>
        match deser f c false t' x' with
        | DOk v x2 => DOk (VSpanned (src_reference_location x') (src_last_location x') v) x2
        | other => other
        end
      end
    | TAny | TIgnored | TTree =>
      let ign := match t with TIgnored => true | _ => false end in
      let child := match t with TTree => TSpanned TTree | _ => t end in
      match src_peek x with
      | NErr e => DErr e
      | NNone x' => DOk VNull x'
      | NSome (EScalar _ _ _ _ _ l as e) x' =>
        match src_next x' with
        | NErr e' => DErr e'
        | NNone _ => DErr (Err E_Eof l)
        | NSome _ x'' =>
          match sres_to_dres true (deserialize_any_scalar (dc c) (scalar_ev_of e)) l x'' with
          | DOk v x3 => DOk (if ign then VNull else v) x3
          | other => other
          end
        end
      | NSome (ESeqStart _ _ _ _) x' =>
        match deser_seq f c (SchedAll child) x' with
        | DOk v x'' => DOk (if ign then VNull else v) x''
        | other => other
        end
      | NSome (EMapStart _ _) x' =>
        match deser_map f c (MMap child child false) x' with
        | DOk v x'' => DOk (if ign then VNull else v) x''
        | other => other
        end
      | NSome (ESeqEnd l) _ => DErr (Err E_UnexpectedSequenceEnd l)
      | NSome (EMapEnd l) _ => DErr (Err E_UnexpectedMappingEnd l)
      end
    end
  end

(* the u8 loop of deserialize_bytes over a sequence *)
with bytes_loop (fuel : nat) (c : dcfg) (x : src) (acc : list N) {struct fuel} : dres :=
  match fuel with
  | O => DFuel
  | S f =>
    match src_peek x with
    | NErr e => DErr e
    | NNone x' => DErr (Err E_Eof (src_last_location x'))
    | NSome (ESeqEnd _) x' =>
      match src_next x' with
      | NErr e => DErr e
      | NSome _ x'' | NNone x'' => DOk (VBytes (rev acc)) x''
      end
    | NSome _ x' =>
      match deser f c false (TInt false 8) x' with
      | DOk (VInt z) x'' => bytes_loop f c x'' (Z.to_N z :: acc)
      | DOk _ _ => DErr (Err E_Message loc_unknown)
      | other => other
      end
    end
  end

(* fn deserialize_seq + SA *)
with deser_seq (fuel : nat) (c : dcfg) (sc : sched) (x : src) {struct fuel} : dres :=
  match fuel with
  | O => DFuel
  | S f =>
    match src_peek x with
    | NErr e => DErr e
    | NNone x' => DErr (Err E_Eof (src_last_location x'))
    | NSome (EScalar v tag _ st _ l) x' =>
      if (tag =? TAG_Null) || scalar_is_nullish v st then
        match src_next x' with
        | NErr e' => DErr e'
        | NSome _ x'' | NNone x'' =>
          if sched_missing sc then DErr (Err E_Message loc_unknown) else DOk (VSeq []) x''
        end
      else if tag =? TAG_Binary then
        match src_next x' with
        | NErr e' => DErr e'
        | NNone _ => DErr (Err E_Eof l)
        | NSome _ x'' =>
          match decode_base64_yaml (utf8_enc v) with
          | None => DErr (Err E_InvalidBinaryBase64 l)
          | Some data => byte_seq data sc x'' []
          end
        end
      else DErr (Err E_Unexpected l)
    | NSome (ESeqStart _ _ _ _) x' =>
      match src_next x' with
      | NErr e' => DErr e'
      | NNone x'' => DErr (Err E_Eof (src_last_location x''))
      | NSome _ x1 => seq_elems f c sc x1 []
      end
    | NSome e _ => DErr (Err E_Unexpected (ev_loc e))
    end
  end

with seq_elems (fuel : nat) (c : dcfg) (sc : sched) (x : src) (acc : list val) {struct fuel} : dres :=
  match fuel with
  | O => DFuel
  | S f =>
    let finish (x2 : src) :=
      (* after visit_seq: consume the SeqEnd only if it is next *)
      match src_peek x2 with
      | NErr e' => DErr e'
      | NSome (ESeqEnd _) x3 =>
        match src_next x3 with
        | NErr e' => DErr e'
        | NSome _ x4 | NNone x4 => DOk (VSeq (rev acc)) x4
        end
      | NSome _ x3 | NNone x3 => DOk (VSeq (rev acc)) x3
      end in
    match sched_next sc with
    | None => finish x
    | Some (et, sc') =>
      match src_peek x with
      | NErr e => DErr e
      | NNone x' => DErr (Err E_Eof (src_last_location x'))
      | NSome (ESeqEnd _) x' =>
        if sched_missing sc then DErr (Err E_Message loc_unknown) else finish x'
      | NSome e x' =>
        let defined := ev_loc e in
        let reference := src_reference_location x' in
        match deser f c false et x' with
        | DOk v x'' => seq_elems f c sc' x'' (v :: acc)
        | DErr er => DErr (attach_alias_locations er reference defined)
        | DFuel => DFuel
        end
      end
    end
  end

(* fn deserialize_map + MA + the map/struct visitors *)
with deser_map (fuel : nat) (c : dcfg) (md : mmode) (x : src) {struct fuel} : dres :=
  match fuel with
  | O => DFuel
  | S f =>
    let empty_result :=
      match md with
      | MMap _ _ _ => inl (VMap [])
      | MStruct fields _ => match struct_finish fields [] with inl l => inl (VStruct l) | inr e => inr e end
      end in
    match src_peek x with
    | NErr e => DErr e
    | NNone x' => DErr (Err E_Eof (src_last_location x'))
    | NSome (EScalar v tag _ st _ l) x' =>
      if (tag =? TAG_Null) || scalar_is_nullish v st then
        match src_next x' with
        | NErr e' => DErr e'
        | NSome _ x'' | NNone x'' =>
          match empty_result with inl v' => DOk v' x'' | inr e' => DErr e' end
        end
      else DErr (Err E_Unexpected l)
    | NSome (EMapStart _ _) x' =>
      match src_next x' with
      | NErr e' => DErr e'
      | NNone x'' => DErr (Err E_Eof (src_last_location x''))
      | NSome _ x1 => map_loop f c md ma_new x1 [] []
      end
    | NSome e _ => DErr (Err E_Unexpected (ev_loc e))
    end
  end

with map_loop (fuel : nat) (c : dcfg) (md : mmode) (m : ma) (x : src)
              (pairs : list (val * val)) (fields_got : list (str * val)) {struct fuel} : dres :=
  match fuel with
  | O => DFuel
  | S f =>
    match ma_next_key f c m x with
    | KFuel => DFuel
    | KErr e => DErr e
    | KEnd _ x' =>
      match md with
      | MMap _ _ _ => DOk (VMap pairs) x'
      | MStruct fields _ =>
        match struct_finish fields fields_got with
        | inl l => DOk (VStruct l) x'
        | inr e => DErr e
        end
      end
    | KKey kevents kemn kloc m' x' =>
      (* value: recorded (through the pending queue) or live *)
      let value (vt : ty) (k : val -> list (val * val) * list (str * val)) :=
        match ma_pending_value m' with
        | Some (vevents, reference) =>
          let rs := replay_with_reference vevents reference in
          let defined := match vevents with e :: _ => ev_loc e | [] => src_last_location rs end in
          match deser f c false vt rs with
          | DOk v _ =>
            let '(p', g') := k v in
            map_loop f c md (mkMA (ma_seen m') (ma_pending m') (ma_merge_stack m') (ma_flushing m') None) x' p' g'
          | DErr er => DErr (attach_alias_locations er reference defined)
          | DFuel => DFuel
          end
        | None =>
          match src_peek x' with
          | NErr e => DErr e
          | NNone x2 | NSome _ x2 =>
            let defined := match src_peek x2 with NSome e _ => ev_loc e | _ => src_last_location x2 end in
            let reference := src_reference_location x2 in
            match deser f c false vt x2 with
            | DOk v x3 => let '(p', g') := k v in map_loop f c md m' x3 p' g'
            | DErr er => DErr (attach_alias_locations er reference defined)
            | DFuel => DFuel
            end
          end
        end in
      match md with
      | MMap kt vt overwrite =>
        match deser f c kemn kt (replay_new kevents) with
        | DFuel => DFuel
        | DErr e => DErr (key_err e kloc)
        | DOk kv xr =>
          (* the key type must take the whole recorded node *)
          match src_peek xr with
          | NSome e _ => DErr (Err E_Unexpected (ev_loc e))
          | _ => value vt (fun v => (if overwrite then map_insert kv v pairs else pairs ++ [(kv, v)], fields_got))
          end
        end
      | MStruct fields deny =>
        match deser f c kemn TStr (replay_new kevents) with
        | DFuel => DFuel
        | DErr e => DErr (key_err e kloc)
        | DOk (VStr name) xr =>
          match src_peek xr with
          | NSome e _ => DErr (Err E_Unexpected (ev_loc e))
          | _ =>
          match assoc_str name fields with
          | Some ft =>
            match assoc_str name fields_got with
            | Some _ => DErr (Err E_Message loc_unknown)            (* duplicate_field *)
            | None => value ft (fun v => (pairs, fields_got ++ [(name, v)]))
            end
          | None =>
            if deny then DErr (Err E_SerdeUnknownField loc_unknown)
            else value TIgnored (fun _ => (pairs, fields_got))
          end
          end
        | DOk _ _ => DErr (Err E_Message loc_unknown)
        end
      end
    end
  end

(* fn deserialize_enum + EA/VA/TaggedEA/TaggedVA *)
with deser_enum (fuel : nat) (c : dcfg) (name : str) (variants : list (str * vshape)) (x : src)
  {struct fuel} : dres :=
  match fuel with
  | O => DFuel
  | S f =>
    (* payload from a live source, map_mode tells whether `{Variant: payload}` must be closed *)
    let payload (vname : str) (vloc : loc) (map_mode : bool) (x : src) : dres :=
      match assoc_str vname variants with
      | None => DErr (Err E_SerdeVariantId vloc)
      | Some shape =>
        let close (v : val) (x : src) :=
          if map_mode then match expect_map_end x with inl x' => DOk (VVariant vname v) x' | inr e => DErr e end
          else DOk (VVariant vname v) x in
        if negb map_mode then
          (* bare scalar `Variant`: the payload is an absent (null) node, never the next sibling *)
          let r := replay_new [null_scalar 0 vloc] in
          match shape with
          | VsUnit => DOk (VVariant vname VUnit) x
          | VsNewtype t =>
            match deser f c false t r with
            | DOk v _ => DOk (VVariant vname v) x
            | other => other
            end
          | VsTuple ts =>
            match deser_seq f c (SchedList ts) r with
            | DOk v _ => DOk (VVariant vname v) x
            | other => other
            end
          | VsStruct fields =>
            match deser_map f c (MStruct fields false) r with
            | DOk v _ => DOk (VVariant vname v) x
            | other => other
            end
          end
        else
        match shape with
        | VsUnit =>
          if map_mode then
            match src_peek x with
            | NErr e => DErr e
            | NNone x' => DErr (Err E_Eof (src_last_location x'))
            | NSome (EMapEnd _) x' =>
              match src_next x' with
              | NErr e => DErr e
              | NSome _ x'' | NNone x'' => DOk (VVariant vname VUnit) x''
              end
            | NSome (EScalar v _ _ st _ l) x' =>
              if scalar_is_nullish v st then
                match src_next x' with
                | NErr e => DErr e
                | NSome _ x'' | NNone x'' => close VUnit x''
                end
              else DErr (Err E_UnexpectedValueForUnitEnumVariant l)
            | NSome e _ => DErr (Err E_UnexpectedValueForUnitEnumVariant (ev_loc e))
            end
          else DOk (VVariant vname VUnit) x
        | VsNewtype t =>
          match src_peek x with
          | NErr e => DErr e
          | NNone x1 | NSome _ x1 =>
            let defined := match src_peek x1 with NSome e _ => ev_loc e | _ => src_last_location x1 end in
            let reference := src_reference_location x1 in
            match deser f c false t x1 with
            | DOk v x2 => close v x2
            | DErr er => DErr (attach_alias_locations er reference defined)
            | DFuel => DFuel
            end
          end
        | VsTuple ts =>
          match deser_seq f c (SchedList ts) x with
          | DOk v x2 => close v x2
          | other => other
          end
        | VsStruct fields =>
          match deser_map f c (MStruct fields false) x with
          | DOk v x2 => close v x2
          | other => other
          end
        end
      end in
    (* payload from the private replay buffer of a `!Variant payload` node *)
    let tagged (vname : str) (vloc : loc) (buf : list ev) (x_after : src) : dres :=
      match assoc_str vname variants with
      | None => DErr (Err E_SerdeVariantId vloc)
      | Some shape =>
        let r := replay_new buf in
        (* fn expect_payload_consumed: the private buffer must be exhausted *)
        let consumed (v : val) (r' : src) :=
          match src_peek r' with
          | NErr e => DErr e
          | NNone _ => DOk (VVariant vname v) x_after
          | NSome e _ => DErr (Err E_Unexpected (ev_loc e))
          end in
        match shape with
        | VsUnit => DOk (VVariant vname VUnit) x_after
        | VsNewtype t =>
          match deser f c false t r with
          | DOk v r' => consumed v r'
          | other => other
          end
        | VsTuple ts =>
          match deser_seq f c (SchedList ts) r with
          | DOk v r' => consumed v r'
          | other => other
          end
        | VsStruct fields =>
          match deser_map f c (MStruct fields false) r with
          | DOk v r' => consumed v r'
          | other => other
          end
        end
      end in
    match src_peek x with
    | NErr e => DErr e
    | NNone x' => DErr (Err E_Eof (src_last_location x'))
    | NSome (EScalar v tag raw_tag st anchor l as e) x' =>
      let tagged_name := simple_tagged_enum_name raw_tag tag in
      if no_schema (dc c) && negb (tag =? TAG_String) && maybe_not_string v st
      then DErr (Err E_QuotingRequired l) else
      match src_next x' with
      | NErr e' => DErr e'
      | NNone _ => DErr (Err E_Eof l)
      | NSome _ x1 =>
        match tagged_name with
        | Some tn =>
          if existsb (str_eqb tn) (variant_names variants)
          then tagged tn l [untag e] x1
          else if negb (str_eqb tn name) then DErr (Err E_TaggedEnumMismatch l)
          else payload v l false x1
        | None => payload v l false x1
        end
      end
    | NSome (EMapStart _ _) x' =>
      match src_next x' with
      | NErr e' => DErr e'
      | NNone x1 => DErr (Err E_Eof (src_last_location x1))
      | NSome _ x1 =>
        match src_next x1 with
        | NErr e' => DErr e'
        | NNone x2 => DErr (Err E_Eof (src_last_location x2))
        | NSome (EScalar v tag _ st _ l) x2 =>
          if no_schema (dc c) && negb (tag =? TAG_String) && maybe_not_string v st
          then DErr (Err E_QuotingRequired l)
          else payload v l true x2
        | NSome e _ => DErr (Err E_ExpectedStringKeyForExternallyTaggedEnum (ev_loc e))
        end
      end
    | NSome (ESeqStart _ tag raw_tag l as e) x' =>
      match simple_tagged_enum_name raw_tag tag with
      | Some tn =>
        if existsb (str_eqb tn) (variant_names variants) then
          match src_next x' with
          | NErr e' => DErr e'
          | NNone _ => DErr (Err E_Eof l)
          | NSome _ x1 =>
            match collect_balanced f x1 1 [] with
            | inr tt => DFuel
            | inl (inr e') => DErr e'
            | inl (inl (rest, x2)) => tagged tn l (untag e :: rest) x2
            end
          end
        else DErr (Err E_ExternallyTaggedEnumExpectedScalarOrMapping l)
      | None => DErr (Err E_ExternallyTaggedEnumExpectedScalarOrMapping l)
      end
    | NSome (ESeqEnd l) _ => DErr (Err E_UnexpectedSequenceEnd l)
    | NSome (EMapEnd l) _ => DErr (Err E_UnexpectedMappingEnd l)
    end
  end.

(* ---------- entry point: from_str_with_options_impl ---------- *)
Record entry_opts := mkEntry {
  eo_cfg : dcfg; eo_budget : option budget; eo_limits : alias_limits
}.

(* Some l: the stream has no content at all, so the first event is the synthesized null; l is
   last_location at that point *)
Definition synthesized_first (s : live) (items : list raw_item) : option loc :=
  match live_peek s items with
  | Yield _ s' _ => if lv_synth_null s' then Some (lv_last s') else None
  | _ => None
  end.

Inductive outcome := OOk (v : val) | OErr (e : err) | OFuel.

(* Error::is_syntax_error *)
Definition is_syntax_err (e : err) : bool :=
  match e with
  | Err E_ExternalMessage _ | Err E_UnknownAnchor _ => true
  | _ => false
  end.

Definition from_str_model (fuel : nat) (o : entry_opts) (t : ty) (items : list raw_item) : outcome :=
  let s0 := live_new (eo_budget o) false (eo_limits o) false in
  match deser fuel (eo_cfg o) false t (SLive s0 items 0) with
  | DFuel => OFuel
  | DErr e =>
    match synthesized_first s0 items with
    | Some l => OErr (Err E_Eof l)      (* an empty document reports Eof instead of the type error *)
    | None => OErr e
    end
  | DOk v x =>
    match x with
    | SReplay _ _ _ => OErr (Err E_Message loc_unknown)
    | SLive s rest _ =>
      match live_peek s rest with
      | Yield _ s' _ => OErr (Err E_MultipleDocuments (lv_last s'))
      | Eos s' _ =>
        match live_finish s' with
        | (_, Some e) => OErr e
        | (_, None) => OOk v
        end
      | Fail e s' _ =>
        (* only an error of the scanner itself is "trailing garbage" after a document end *)
        if lv_seen_doc_end s' && is_syntax_err e then
          match live_finish s' with
          | (_, Some e') => OErr e'
          | (_, None) => OOk v
          end
        else OErr e
      end
    end
  end.

(* ---------- multi-document entry points (C11) ---------- *)
Inductive moutcome := MOk (vs : list val) | MErr (e : err) | MFuel.

(* fn from_multiple_with_options: null-like root documents are skipped, the first error wins *)
Fixpoint from_multiple_loop (fuel : nat) (o : entry_opts) (t : ty) (s : live) (rest : list raw_item)
                            (acc : list val) : moutcome :=
  match fuel with
  | O => MFuel
  | S f =>
    match live_peek s rest with
    | Fail e _ _ => MErr e
    | Eos s' _ =>
      match live_finish s' with
      | (_, Some e) => MErr e
      | (_, None) => MOk (rev acc)
      end
    | Yield e s' rest' =>
      if ev_scalar_nullish e then
        match live_next s' rest' with
        | Fail e' _ _ => MErr e'
        | Yield _ s2 r2 | Eos s2 r2 => from_multiple_loop f o t s2 r2 acc
        end
      else
        match deser f (eo_cfg o) false t (SLive s' rest' 0) with
        | DFuel => MFuel
        | DErr e' => MErr e'
        | DOk v (SLive s2 r2 open) =>
          (* fn ensure_root_node_consumed *)
          if open =? 0 then from_multiple_loop f o t s2 r2 (v :: acc)
          else MErr (Err E_Unexpected (lv_last s2))
        | DOk _ _ => MErr (Err E_Message loc_unknown)
        end
    end
  end.

Definition from_multiple_model (fuel : nat) (o : entry_opts) (t : ty) (items : list raw_item) : moutcome :=
  from_multiple_loop fuel o t (live_new (eo_budget o) false (eo_limits o) false) items [].

(* ReadIter::next, collected: one entry per item the iterator yields.
   After a failed document the skip to the next DocumentStart is started from the position at which
   that document's first event was peeked: a failing deserialization never reads past its own
   document, so skipping from there reaches the same DocumentStart (validated by correspondence). *)
Inductive item := IOk (v : val) | IErr (e : err).

(* where the raw stream stands when a document has failed: if the failure is the (non-sticky)
   parser error item itself, just after that item; otherwise anywhere inside the document -- the
   position its first event was peeked at is used (see read_iter) *)
Definition err_eqb_simple (a b : err) : bool :=
  match a, b with
  | Err c l, Err c' l' => eclass_beq c c' && loc_eqb l l'
  | _, _ => false
  end.
Fixpoint after_matching_scan_err (e : err) (rest : list raw_item) : option (list raw_item) :=
  match rest with
  | [] => None
  | RScanErr m ua :: r =>
    if err_eqb_simple e (Err (if ua then E_UnknownAnchor else E_ExternalMessage) (location_from_scan_mark m))
    then Some r else None
  | RItem (RDocStart _) _ :: _ => None
  | RItem _ _ :: r => after_matching_scan_err e r
  end.
Definition resume_point (e : err) (rest : list raw_item) : list raw_item :=
  match after_matching_scan_err e rest with Some r => r | None => rest end.

Fixpoint read_iter (fuel : nat) (o : entry_opts) (t : ty) (s : live) (rest : list raw_item) : list item + unit :=
  match fuel with
  | O => inr tt
  | S f =>
    match live_peek s rest with
    | Fail e _ _ => inl [IErr e]                          (* finished; finish() result ignored *)
    | Eos s' _ =>
      match live_finish s' with
      | (_, Some e) => inl [IErr e]
      | (_, None) => inl []
      end
    | Yield e s' rest' =>
      if ev_scalar_nullish e then
        match live_next s' rest' with
        | Yield _ s2 r2 | Eos s2 r2 => read_iter f o t s2 r2
        | Fail e' _ _ => inl [IErr e']                     (* an error here ends the iteration *)
        end
      else
        let failed (e' : err) :=
          match skip_to_next_document s' (resume_point e' rest') with
          | (true, s2, r2) =>
            match read_iter f o t s2 r2 with
            | inl l => inl (IErr e' :: l)
            | inr tt => inr tt
            end
          | (false, _, _) => inl [IErr e']
          end in
        match deser f (eo_cfg o) false t (SLive s' rest' 0) with
        | DFuel => inr tt
        | DOk v (SLive s2 r2 open) =>
          if open =? 0 then
            match read_iter f o t s2 r2 with
            | inl l => inl (IOk v :: l)
            | inr tt => inr tt
            end
          else
            (* the value stopped inside its node: an error, then the usual skip (from where the
               stream stands now) *)
            match skip_to_next_document s2 r2 with
            | (true, s3, r3) =>
              match read_iter f o t s3 r3 with
              | inl l => inl (IErr (Err E_Unexpected (lv_last s2)) :: l)
              | inr tt => inr tt
              end
            | (false, _, _) => inl [IErr (Err E_Unexpected (lv_last s2))]
            end
        | DOk _ _ => inr tt
        | DErr e' => failed e'
        end
    end
  end.

Definition read_model (fuel : nat) (o : entry_opts) (t : ty) (items : list raw_item) : list item + unit :=
  read_iter fuel o t (live_new (eo_budget o) true (eo_limits o) false) items.
