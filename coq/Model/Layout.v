(* Layout.v -- layout-only mechanisms of the serializer (C20): soft wrapping of folded block scalars
   (src/wrapping.rs write_folded_block) and the one-line sanitising of inline comments (src/ser.rs,
   Commented).  Strings are lists of Unicode scalar values. *)
From SS Require Export Model.Text.
From Coq Require Export NArith List Bool.
Export ListNotations.
Local Open Scope N_scope.

Definition SP : N := 32.
Definition is_sp (c : N) : bool := c =? 32.
Definition is_tab (c : N) : bool := c =? 9.
Definition is_blank (c : N) : bool := is_sp c || is_tab c.

(* state of the scan of one logical line *)
Record fstate := mkF {
  f_cur : list N;                 (* characters of the current output line so far, in order *)
  f_col : nat;                    (* characters counted since the last cut *)
  f_last : option (nat * nat);    (* last complete run of spaces: (position in f_cur, length) *)
  f_in : bool; f_rs : nat; f_rl : nat;   (* run of spaces in progress: start position, length *)
  f_out : list (list N);          (* finished output lines, most recent first *)
  f_stop : bool                   (* over the limit with nowhere to cut: stop wrapping *)
}.

Definition fstep (w : nat) (st : fstate) (ch : N) : fstate :=
  if f_stop st then mkF (f_cur st ++ [ch]) (f_col st) (f_last st) (f_in st) (f_rs st) (f_rl st) (f_out st) true else
  (* a run of spaces ends when a non-space arrives; a run followed by a tab is no place to cut *)
  let '(last1, in1, rl1) :=
    if f_in st && negb (is_sp ch)
    then ((if is_tab ch then f_last st else Some (f_rs st, f_rl st)), false, 0%nat)
    else (f_last st, f_in st, f_rl st) in
  let pos := length (f_cur st) in
  let '(in2, rs2, rl2) :=
    if is_sp ch then (if in1 then (true, f_rs st, S rl1) else (true, pos, 1%nat)) else (in1, f_rs st, rl1) in
  let cur := f_cur st ++ [ch] in
  let col := S (f_col st) in
  if Nat.ltb w col then
    match last1 with
    | None => mkF cur col last1 in2 rs2 rl2 (f_out st) true
    | Some (p, wl) =>
      let line := firstn p cur ++ repeat SP (wl - 1) in
      let rest := skipn (p + wl) cur in
      (* positions are relative to the new current line *)
      mkF rest 0 None in2 (rs2 - (p + wl)) rl2 (line :: f_out st) false
    end
  else mkF cur col last1 in2 rs2 rl2 (f_out st) false.

(* the output lines of one logical line that is neither empty nor starts with a space or a tab *)
Definition fold_line (w : nat) (line : list N) : list (list N) :=
  let st := fold_left (fstep w) line (mkF [] 0 None false 0 0 [] false) in
  rev (f_cur st :: f_out st).

(* write_folded_block on a whole string: the lines it writes (without the indentation) *)
Fixpoint split_on_nl (s acc : list N) : list (list N) :=
  match s with
  | [] => [rev acc]
  | c :: r => if c =? 10 then rev acc :: split_on_nl r [] else split_on_nl r (c :: acc)
  end.

Definition fold_block (w : nat) (s : list N) : list (list N) :=
  flat_map (fun line => match line with
                        | [] => [[]]
                        | c :: _ => if is_blank c then [line] else fold_line w line
                        end) (split_on_nl s []).

(* how a reader joins the lines of one folded paragraph: single spaces between them *)
Fixpoint join_sp (ls : list (list N)) : list N :=
  match ls with
  | [] => []
  | [l] => l
  | l :: r => l ++ SP :: join_sp r
  end.

(* ---- inline comments ---- *)
(* what ends a comment for the reader: LF, CR, and NUL (which ends the whole stream) *)
Definition is_break (c : N) : bool := (c =? 10) || (c =? 13) || (c =? 0).
Definition sanitize_comment (s : list N) : list N := map (fun c => if is_break c then SP else c) s.

(* fn first_line_leading_spaces *)
Fixpoint count_lead_sp (l : list N) : N := match l with c :: r => if is_sp c then 1 + count_lead_sp r else 0 | [] => 0 end.
Definition first_line_leading_spaces (s : list N) : N :=
  match filter (fun l => match l with [] => false | _ => true end) (split_on_nl s []) with
  | l :: _ => count_lead_sp l
  | [] => 0
  end.
