(* Reader.v -- executable model of src/buffered_input.rs (ChunkedChars::next and the shared error
   cell) and of the read side of src/ring_reader.rs (RingReader: stash + ring snapshot offsets).
   The underlying reader is a script: the results of its successive `read` calls.  Definitions only. *)
From SS Require Export Model.Text Gen.Constants.
Local Open Scope N_scope.

(* io::ErrorKind, as far as the code distinguishes kinds *)
Inductive iokind := KUnexpectedEof | KInterrupted | KInvalidData | KFileTooLarge | KOther (code : N).
Definition iokind_eqb (a b : iokind) : bool :=
  match a, b with
  | KUnexpectedEof, KUnexpectedEof | KInterrupted, KInterrupted | KInvalidData, KInvalidData
  | KFileTooLarge, KFileTooLarge => true
  | KOther x, KOther y => x =? y
  | _, _ => false
  end.

(* one result of the inner reader's `read`: some bytes (non-empty), an error (reported once), EOF *)
Inductive rstep := RChunk (bytes : list N) | RFail (k : iokind) | REof.
Definition script := list rstep.

(* `read(buf)` with |buf| = n >= 1 on the scripted reader *)
Inductive rres := ROk (bytes : list N) | RErrK (k : iokind).
Definition script_read (n : nat) (s : script) : rres * script :=
  match s with
  | [] => (ROk [], [])
  | REof :: _ => (ROk [], s)
  | RFail k :: r => (RErrK k, r)
  | RChunk bs :: r =>
    let got := firstn n bs in
    let left := skipn n bs in
    (ROk got, match left with [] => r | _ => RChunk left :: r end)
  end.

(* the first byte of a character: `read` into one slot; zero bytes is the end of input,
   Interrupted is retried, any other reported error (UnexpectedEof included) is an error *)
Inductive first_byte := FbByte (b : N) | FbEof | FbErr (k : iokind).
Fixpoint read_first (fuel : nat) (s : script) : first_byte * script :=
  match fuel with
  | O => (FbErr KInterrupted, s)
  | S f =>
    match script_read 1 s with
    | (ROk [], s') => (FbEof, s')
    | (ROk (b :: _), s') => (FbByte b, s')
    | (RErrK KInterrupted, s') => read_first f s'
    | (RErrK k, s') => (FbErr k, s')
    end
  end.

(* the continuation loop: plain `read` into the remaining slots; any error (Interrupted included)
   or Ok(0) ends the character *)
Fixpoint read_rest (fuel : nat) (want : nat) (s : script) (acc : list N) : (list N + iokind) * script :=
  match want with
  | O => (inl acc, s)
  | _ =>
    match fuel with
    | O => (inr KInterrupted, s)
    | S f =>
      match script_read want s with
      | (ROk [], s') => (inr KUnexpectedEof, s')
      | (ROk bs, s') => read_rest f (want - length bs) s' (acc ++ bs)
      | (RErrK k, s') => (inr k, s')
      end
    end
  end.

Definition lead_len (b : N) : option nat :=
  if b <? 128 then Some 1%nat
  else if (b / 32) =? 6 then Some 2%nat           (* 110xxxxx *)
  else if (b / 16) =? 14 then Some 3%nat          (* 1110xxxx *)
  else if (b / 8) =? 30 then Some 4%nat           (* 11110xxx *)
  else None.

Record chunked := mkChunked { ck_script : script; ck_total : N; ck_cell : option iokind }.

Definition USIZE_MAX_R : N := 18446744073709551615.
Definition sat_add_r (a b : N) : N := if USIZE_MAX_R <? a + b then USIZE_MAX_R else a + b.

(* ChunkedChars::next.  None = the iterator returned None (EOF or error left in the cell). *)
Definition chunked_next (max_bytes : option N) (c : chunked) : option N * chunked :=
  let fuel := S (length (ck_script c)) in
  match read_first fuel (ck_script c) with
  | (FbEof, s') => (None, mkChunked s' (ck_total c) (ck_cell c))
  | (FbErr k, s') => (None, mkChunked s' (ck_total c) (Some k))
  | (FbByte first, s1) =>
    match lead_len first with
    | None => (None, mkChunked s1 (ck_total c) (Some KInvalidData))
    | Some needed =>
      match read_rest (S (length s1) + 4) (needed - 1) s1 [first] with
      | (inr k, s2) => (None, mkChunked s2 (ck_total c) (Some k))
      | (inl bytes, s2) =>
        let new_total := sat_add_r (ck_total c) (N.of_nat needed) in
        let over := match max_bytes with Some lim => lim <? new_total | None => false end in
        if over then (None, mkChunked s2 (ck_total c) (Some KFileTooLarge))
        else
          match utf8_dec bytes with
          | Some [ch] => (Some ch, mkChunked s2 new_total (ck_cell c))
          | _ => (None, mkChunked s2 new_total (Some KInvalidData))
          end
      end
    end
  end.

(* run the iterator to its first None *)
Fixpoint chunked_all (fuel : nat) (max_bytes : option N) (c : chunked) (acc : list N) : list N * chunked :=
  match fuel with
  | O => (rev acc, c)
  | S f =>
    match chunked_next max_bytes c with
    | (Some ch, c') => chunked_all f max_bytes c' (ch :: acc)
    | (None, c') => (rev acc, c')
    end
  end.

Definition chunked_run (max_bytes : option N) (s : script) (max_chars : nat) : list N * option iokind :=
  let '(chars, c) := chunked_all max_chars max_bytes (mkChunked s 0 None) [] in
  (chars, ck_cell c).

(* ---------- RingReader (read side) ---------- *)
(* operations of the consumer *)
Inductive rop := OpRead (n : nat) | OpRecent.

Record ring := mkRing {
  rg_inner : script;
  rg_ring : list N;           (* most recent bytes, oldest first, at most RING_BUFFER_SIZE *)
  rg_ring_start : N;          (* absolute offset of the first ring byte *)
  rg_ring_line : N;           (* 1-based line of the first ring byte *)
  rg_stash : list N;          (* read-ahead not yet returned, FIFO *)
  rg_returned : N
}.
Definition ring_new (s : script) : ring := mkRing s [] 0 1 [] 0.

(* fn push_ring_bytes *)
Fixpoint push_ring (bytes : list N) (off : N) (rg : list N) (start line : N) : list N * N * N :=
  match bytes with
  | [] => (rg, start, line)
  | b :: r =>
    let start0 := match rg with [] => off | _ => start end in
    let '(rg1, start1, line1) :=
      if N.of_nat (length rg) =? RING_BUFFER_SIZE then
        match rg with
        | ev :: rg' =>
          let lone_cr := (ev =? 13) && negb (match rg' with 10 :: _ => true | _ => false end) in
          (rg', start0 + 1, if (ev =? 10) || lone_cr then line + 1 else line)
        | [] => (rg, start0, line)
        end
      else (rg, start0, line) in
    push_ring r (off + 1) (rg1 ++ [b]) start1 line1
  end.

(* impl Read for RingReader: bytes handed out, or the inner error *)
Definition ring_read (n : nat) (r : ring) : rres * ring :=
  match n with
  | O => (ROk [], r)
  | _ =>
    match rg_stash r with
    | _ :: _ =>
      let got := firstn n (rg_stash r) in
      (ROk got, mkRing (rg_inner r) (rg_ring r) (rg_ring_start r) (rg_ring_line r)
                       (skipn n (rg_stash r)) (rg_returned r + N.of_nat (length got)))
    | [] =>
      match script_read n (rg_inner r) with
      | (RErrK k, s') => (RErrK k, mkRing s' (rg_ring r) (rg_ring_start r) (rg_ring_line r) [] (rg_returned r))
      | (ROk [], s') => (ROk [], mkRing s' (rg_ring r) (rg_ring_start r) (rg_ring_line r) [] (rg_returned r))
      | (ROk bs, s') =>
        let '(rg', st', ln') := push_ring bs (rg_returned r) (rg_ring r) (rg_ring_start r) (rg_ring_line r) in
        (ROk bs, mkRing s' rg' st' ln' [] (rg_returned r + N.of_nat (length bs)))
      end
    end
  end.

(* fn read_ahead_at_most (scratch buffer of 8 KiB) *)
Fixpoint read_ahead (fuel : nat) (remaining : nat) (r : ring) : option iokind * ring :=
  match fuel, remaining with
  | _, O => (None, r)
  | O, _ => (None, r)
  | S f, _ =>
    match script_read (Nat.min remaining 8192) (rg_inner r) with
    | (RErrK k, s') => (Some k, mkRing s' (rg_ring r) (rg_ring_start r) (rg_ring_line r) (rg_stash r) (rg_returned r))
    | (ROk [], s') => (None, mkRing s' (rg_ring r) (rg_ring_start r) (rg_ring_line r) (rg_stash r) (rg_returned r))
    | (ROk bs, s') =>
      let abs_start := rg_returned r + N.of_nat (length (rg_stash r)) in
      let '(rg', st', ln') := push_ring bs abs_start (rg_ring r) (rg_ring_start r) (rg_ring_line r) in
      read_ahead f (remaining - length bs)
                 (mkRing s' rg' st' ln' (rg_stash r ++ bs) (rg_returned r))
    end
  end.

(* fn get_recent without the UTF-8 boundary trimming (snippet cropping is Snippet.v):
   tops the read-ahead up to MAX_READ_AHEAD, then reports (start offset, start line, bytes) *)
Definition ring_recent (r : ring) : (option iokind * (N * N * list N)) * ring :=
  let can := (N.to_nat MAX_READ_AHEAD - length (rg_stash r))%nat in
  let '(e, r') := read_ahead (S (length (rg_inner r))) can r in
  match e with
  | Some k => ((Some k, (0, 0, [])), r')
  | None =>
    ((None, match rg_ring r' with
            | [] => (rg_returned r', rg_ring_line r', [])
            | bs => (rg_ring_start r', rg_ring_line r', bs)
            end), r')
  end.

(* drive a RingReader with a script of consumer operations *)
Fixpoint ring_run (ops : list rop) (r : ring) (out : list N) (snaps : list (option iokind * (N * N * list N)))
  : list N * list (option iokind * (N * N * list N)) * option iokind :=
  match ops with
  | [] => (out, rev snaps, None)
  | OpRead n :: rest =>
    match ring_read n r with
    | (RErrK k, _) => (out, rev snaps, Some k)
    | (ROk bs, r') => ring_run rest r' (out ++ bs) snaps
    end
  | OpRecent :: rest =>
    let '(sn, r') := ring_recent r in ring_run rest r' out (sn :: snaps)
  end.
