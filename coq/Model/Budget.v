(* Budget.v -- executable model of src/budget.rs: BudgetEnforcer::{new, observe, finalize,
   into_report}, BudgetReport::reset, check_yaml_budget.  usize arithmetic is N; the two
   saturating additions are written with the bound 2^64-1.  Definitions only. *)
From SS Require Export Model.Raw.
Local Open Scope N_scope.

Definition USIZE_MAX : N := 18446744073709551615.
Definition sat_add (a b : N) : N := if USIZE_MAX <? a + b then USIZE_MAX else a + b.

Record budget := mkBudget {
  max_events : N; max_aliases : N; max_anchors : N; max_depth : N; max_documents : N;
  max_nodes : N; max_total_scalar_bytes : N; max_merge_keys : N;
  enforce_alias_anchor_ratio : bool; alias_anchor_min_aliases : N; alias_anchor_ratio_multiplier : N
}.

Definition default_budget : budget :=
  mkBudget default_budget_max_events default_budget_max_aliases default_budget_max_anchors
           default_budget_max_depth default_budget_max_documents default_budget_max_nodes
           default_budget_max_total_scalar_bytes default_budget_max_merge_keys
           default_budget_enforce_alias_anchor_ratio default_budget_alias_anchor_min_aliases
           default_budget_alias_anchor_ratio_multiplier.

Record report := mkReport {
  r_breached : option breach;
  r_events : N; r_aliases : N; r_anchors : N; r_documents : N; r_nodes : N; r_max_depth : N;
  r_total_scalar_bytes : N; r_merge_keys : N
}.
Definition report0 : report := mkReport None 0 0 0 0 0 0 0 0.

(* BudgetReport::reset: everything except `breached` and the document count *)
Definition report_reset (r : report) : report :=
  mkReport (r_breached r) 0 0 0 (r_documents r) 0 0 0 0.

Inductive cstate :=
| CSeq (from_mapping_value : bool)
| CMap (expecting_key : bool) (from_mapping_value : bool).

Record enforcer := mkEnf {
  e_budget : budget;
  e_report : report;
  e_depth : N;
  e_defined : list N;            (* defined_anchors: a set, no duplicates *)
  e_containers : list cstate;    (* head = last() *)
  e_per_document : bool          (* policy == PerDocument *)
}.

Definition enforcer_new (b : budget) (per_document : bool) : enforcer :=
  mkEnf b report0 0 [] [] per_document.

Definition set_report (e : enforcer) (r : report) : enforcer :=
  mkEnf (e_budget e) r (e_depth e) (e_defined e) (e_containers e) (e_per_document e).
Definition set_containers (e : enforcer) (c : list cstate) : enforcer :=
  mkEnf (e_budget e) (e_report e) (e_depth e) (e_defined e) c (e_per_document e).
Definition set_depth (e : enforcer) (d : N) : enforcer :=
  mkEnf (e_budget e) (e_report e) d (e_defined e) (e_containers e) (e_per_document e).
Definition set_defined (e : enforcer) (d : list N) : enforcer :=
  mkEnf (e_budget e) (e_report e) (e_depth e) d (e_containers e) (e_per_document e).

Definition upd_events (r : report) v := mkReport (r_breached r) v (r_aliases r) (r_anchors r) (r_documents r) (r_nodes r) (r_max_depth r) (r_total_scalar_bytes r) (r_merge_keys r).
Definition upd_aliases (r : report) v := mkReport (r_breached r) (r_events r) v (r_anchors r) (r_documents r) (r_nodes r) (r_max_depth r) (r_total_scalar_bytes r) (r_merge_keys r).
Definition upd_anchors (r : report) v := mkReport (r_breached r) (r_events r) (r_aliases r) v (r_documents r) (r_nodes r) (r_max_depth r) (r_total_scalar_bytes r) (r_merge_keys r).
Definition upd_documents (r : report) v := mkReport (r_breached r) (r_events r) (r_aliases r) (r_anchors r) v (r_nodes r) (r_max_depth r) (r_total_scalar_bytes r) (r_merge_keys r).
Definition upd_nodes (r : report) v := mkReport (r_breached r) (r_events r) (r_aliases r) (r_anchors r) (r_documents r) v (r_max_depth r) (r_total_scalar_bytes r) (r_merge_keys r).
Definition upd_max_depth (r : report) v := mkReport (r_breached r) (r_events r) (r_aliases r) (r_anchors r) (r_documents r) (r_nodes r) v (r_total_scalar_bytes r) (r_merge_keys r).
Definition upd_scalar_bytes (r : report) v := mkReport (r_breached r) (r_events r) (r_aliases r) (r_anchors r) (r_documents r) (r_nodes r) (r_max_depth r) v (r_merge_keys r).
Definition upd_merge_keys (r : report) v := mkReport (r_breached r) (r_events r) (r_aliases r) (r_anchors r) (r_documents r) (r_nodes r) (r_max_depth r) (r_total_scalar_bytes r) v.
Definition upd_breached (r : report) v := mkReport v (r_events r) (r_aliases r) (r_anchors r) (r_documents r) (r_nodes r) (r_max_depth r) (r_total_scalar_bytes r) (r_merge_keys r).

(* Result of a step: the new enforcer state and, if a limit was exceeded, the breach.
   (The Rust code returns Err but keeps the mutated state; the state matters for into_report.) *)
Definition ostep := (enforcer * option breach)%type.

(* fn bump_nodes *)
Definition bump_nodes (e : enforcer) : ostep :=
  let r := upd_nodes (e_report e) (r_nodes (e_report e) + 1) in
  let e' := set_report e r in
  if max_nodes (e_budget e) <? r_nodes r then (e', Some (BrNodes (r_nodes r))) else (e', None).

Fixpoint mem_N (x : N) (l : list N) : bool :=
  match l with [] => false | y :: r => (x =? y) || mem_N x r end.
Definition len_N {A} (l : list A) : N := N.of_nat (length l).

(* fn record_anchor *)
Definition record_anchor (e : enforcer) (anchor_id : N) : ostep :=
  if negb (anchor_id =? 0) && negb (mem_N anchor_id (e_defined e)) then
    let e1 := set_defined e (anchor_id :: e_defined e) in
    let count := len_N (e_defined e1) in
    if max_anchors (e_budget e) <? count then
      (set_report e1 (upd_anchors (e_report e1) count), Some (BrAnchors count))
    else (set_report e1 (upd_anchors (e_report e1) count), None)
  else (set_report e (upd_anchors (e_report e) (len_N (e_defined e))), None).

(* fn finish_value *)
Definition finish_value (cs : list cstate) : list cstate :=
  match cs with
  | CMap _ fmv :: r => CMap true fmv :: r
  | _ => cs
  end.

(* fn handle_scalar *)
Definition handle_scalar (e : enforcer) (value : str) (st : style) (has_tag : bool) : ostep :=
  match e_containers e with
  | CMap true fmv :: r =>
    let is_merge := negb has_tag && is_plain st && str_eqb value [60; 60] in
    if is_merge then
      let rep := upd_merge_keys (e_report e) (r_merge_keys (e_report e) + 1) in
      let e1 := set_report e rep in
      if max_merge_keys (e_budget e) <? r_merge_keys rep
      then (e1, Some (BrMergeKeys (r_merge_keys rep)))     (* returns before clearing expecting_key *)
      else (set_containers e1 (CMap false fmv :: r), None)
    else (set_containers e (CMap false fmv :: r), None)
  | CMap false _ :: _ => (set_containers e (finish_value (e_containers e)), None)
  | _ => (e, None)
  end.

(* fn handle_alias *)
Definition handle_alias (e : enforcer) : enforcer :=
  match e_containers e with
  | CMap true fmv :: r => set_containers e (CMap false fmv :: r)
  | CMap false _ :: _ => set_containers e (finish_value (e_containers e))
  | _ => e
  end.

(* fn entering_container: returns from_mapping_value and the updated stack *)
Definition entering_container (cs : list cstate) : bool * list cstate :=
  match cs with
  | CMap true fmv :: r => (false, CMap false fmv :: r)
  | CMap false _ :: _ => (true, cs)
  | _ => (false, cs)
  end.

Definition enter_depth (e : enforcer) : ostep :=
  let d := sat_add (e_depth e) 1 in
  let e1 := set_depth e d in
  let rep := if r_max_depth (e_report e1) <? d then upd_max_depth (e_report e1) d else e_report e1 in
  let e2 := set_report e1 rep in
  if max_depth (e_budget e) <? r_max_depth rep then (e2, Some (BrDepth (r_max_depth rep))) else (e2, None).

Definition bind (s : ostep) (f : enforcer -> ostep) : ostep :=
  match s with
  | (e, None) => f e
  | (e, Some b) => (e, Some b)
  end.

(* fn observe *)
Definition observe (e0 : enforcer) (ev : raw_ev) : ostep :=
  let rep0 := upd_events (e_report e0) (r_events (e_report e0) + 1) in
  let e := set_report e0 rep0 in
  if max_events (e_budget e) <? r_events rep0 then (e, Some (BrEvents (r_events rep0))) else
  match ev with
  | RScalar value st anchor tag =>
    bind (bump_nodes e) (fun e1 =>
      let tb := sat_add (r_total_scalar_bytes (e_report e1)) (utf8_str_len value) in
      let e2 := set_report e1 (upd_scalar_bytes (e_report e1) tb) in
      if max_total_scalar_bytes (e_budget e) <? tb then (e2, Some (BrScalarBytes tb)) else
      bind (record_anchor e2 anchor) (fun e3 =>
        handle_scalar e3 value st (match tag with Some _ => true | None => false end)))
  | RMapStart anchor _ =>
    bind (bump_nodes e) (fun e1 =>
      bind (enter_depth e1) (fun e2 =>
        let '(fmv, cs) := entering_container (e_containers e2) in
        record_anchor (set_containers e2 (CMap true fmv :: cs)) anchor))
  | RMapEnd =>
    if e_depth e =? 0 then (e, Some BrUnbalanced) else
    let e1 := set_depth e (e_depth e - 1) in
    match e_containers e1 with
    | CMap _ fmv :: r =>
      (set_containers e1 (if fmv then finish_value r else r), None)
    | _ :: r => (set_containers e1 r, Some BrUnbalanced)
    | [] => (e1, Some BrUnbalanced)
    end
  | RSeqStart anchor _ =>
    bind (bump_nodes e) (fun e1 =>
      bind (enter_depth e1) (fun e2 =>
        let '(fmv, cs) := entering_container (e_containers e2) in
        record_anchor (set_containers e2 (CSeq fmv :: cs)) anchor))
  | RSeqEnd =>
    if e_depth e =? 0 then (e, Some BrUnbalanced) else
    let e1 := set_depth e (e_depth e - 1) in
    match e_containers e1 with
    | CSeq fmv :: r =>
      (set_containers e1 (if fmv then finish_value r else r), None)
    | _ :: r => (set_containers e1 r, Some BrUnbalanced)
    | [] => (e1, Some BrUnbalanced)
    end
  | RAlias _ =>
    let rep := upd_aliases (e_report e) (r_aliases (e_report e) + 1) in
    let e1 := set_report e rep in
    if max_aliases (e_budget e) <? r_aliases rep then (e1, Some (BrAliases (r_aliases rep)))
    else (handle_alias e1, None)
  | RDocStart _ =>
    if e_per_document e then (set_defined (set_report e (report_reset (e_report e))) [], None)
    else
      let rep := upd_documents (e_report e) (r_documents (e_report e) + 1) in
      let e1 := set_report e rep in
      if max_documents (e_budget e) <? r_documents rep then (e1, Some (BrDocuments (r_documents rep)))
      else (e1, None)
  | RDocEnd | RNothing | RStreamStart | RStreamEnd => (e, None)
  end.

(* fn document_started_after_skip *)
Definition document_started_after_skip (e : enforcer) : enforcer :=
  if e_per_document e then
    mkEnf (e_budget e) (report_reset (e_report e)) 0 [] [] true
  else e.

(* fn alias_will_be_replayed *)
Definition alias_will_be_replayed (e : enforcer) : enforcer :=
  match e_containers e with
  | CMap ek fmv :: r => set_containers e (CMap (negb ek) fmv :: r)
  | _ => e
  end.

(* fn into_report *)
Definition into_report (e : enforcer) : report :=
  upd_anchors (e_report e) (len_N (e_defined e)).

(* fn finalize *)
Definition finalize (e : enforcer) : report :=
  let r := upd_anchors (e_report e) (len_N (e_defined e)) in
  let b := e_budget e in
  if enforce_alias_anchor_ratio b
     && (alias_anchor_min_aliases b <=? r_aliases r)
     && ((r_anchors r =? 0) || (alias_anchor_ratio_multiplier b * r_anchors r <? r_aliases r))
  then upd_breached r (Some (BrRatio (r_aliases r) (r_anchors r)))
  else r.

(* fn check_yaml_budget over the raw items of the parser: Ok(report) or Err(scan error) *)
Fixpoint check_budget_go (items : list raw_item) (e : enforcer) : option report :=
  match items with
  | [] => Some (finalize e)
  | RScanErr _ _ :: _ => None
  | RItem ev _ :: r =>
    match observe e ev with
    | (e', Some b) => Some (upd_breached (into_report e') (Some b))
    | (e', None) => check_budget_go r e'
    end
  end.
Definition check_yaml_budget (items : list raw_item) (b : budget) (per_document : bool) : option report :=
  check_budget_go items (enforcer_new b per_document).
