(* Expand.v -- the specification side of C02: a document body as a forest of nodes, its raw item
   sequence as the parser delivers it (lin), and its ALIAS-FREE EXPANSION as an event sequence
   (expand): every alias is replaced by a verbatim copy of the events of the node most recently
   anchored under that id, in document order.  The expansion knows nothing of recording frames,
   injection stacks or depth counters; it only carries the table id -> events of the closed node and
   the two replay counters the alias limits are stated about (expansion is defined "whenever it
   stays within the configured limits", as the property says).  Definitions only. *)
From SS Require Export Model.Live.
Local Open Scope N_scope.

Inductive node :=
| NScalar (val : str) (st : style) (anchor : N) (tag : option str) (sp : pspan)
| NSeq (anchor : N) (tag : option str) (sp : pspan) (items : forest) (sp_end : pspan)
| NMap (anchor : N) (tag : option str) (sp : pspan) (items : forest) (sp_end : pspan)
| NAlias (id : N) (sp : pspan)
with forest :=
| FNil
| FCons (n : node) (f : forest).

(* the raw items of a node, as the parser emits them *)
Fixpoint lin (n : node) : list raw_item :=
  match n with
  | NScalar v st a t sp => [RItem (RScalar v st a t) sp]
  | NSeq a t sp items spe => RItem (RSeqStart a t) sp :: lin_forest items ++ [RItem RSeqEnd spe]
  | NMap a t sp items spe => RItem (RMapStart a t) sp :: lin_forest items ++ [RItem RMapEnd spe]
  | NAlias id sp => [RItem (RAlias id) sp]
  end
with lin_forest (f : forest) : list raw_item :=
  match f with
  | FNil => []
  | FCons n r => lin n ++ lin_forest r
  end.

Record xst := mkX {
  x_env : list (N * list ev);       (* id -> events of the closed anchored node; newest first *)
  x_replayed : N;                   (* events copied so far (max_total_replayed_events) *)
  x_exp : list (N * N)              (* copies per id so far (max_alias_expansions_per_anchor) *)
}.

Definition folded_unindented (v : str) (st : style) (sp : pspan) : bool :=
  (match st with Folded => true | _ => false end)
  && (mk_col (sp_start sp) =? 0)
  && negb (match trim v with [] => true | _ => false end).

Definition x_expansions_of (st : xst) (id : N) : N :=
  match assoc id (x_exp st) with Some c => c | None => 0 end.

(* [open] = ids of the anchored containers we are inside of (an alias to one of them is a cycle).
   None = outside the domain of the statement: a limit is exceeded, an alias has no closed anchor,
   or the scalar is the folded block the crate refuses. *)
Fixpoint expand (lim : alias_limits) (open : list N) (st : xst) (n : node) : option (list ev * xst) :=
  match n with
  | NScalar v sty a t sp =>
    if folded_unindented v sty sp then None else
    let e := EScalar v (sftag_from_optional t) t sty a (location_from_span sp) in
    Some ([e], if negb (a =? 0) then mkX ((a, [e]) :: x_env st) (x_replayed st) (x_exp st) else st)
  | NSeq a t sp items spe =>
    let e0 := ESeqStart a (sftag_from_optional t) t (location_from_span sp) in
    match expand_forest lim (if negb (a =? 0) then a :: open else open) st items with
    | None => None
    | Some (inner, st1) =>
      let out := e0 :: inner ++ [ESeqEnd (location_from_span spe)] in
      Some (out, if negb (a =? 0) then mkX ((a, out) :: x_env st1) (x_replayed st1) (x_exp st1) else st1)
    end
  | NMap a t sp items spe =>
    let e0 := EMapStart a (location_from_span sp) in
    match expand_forest lim (if negb (a =? 0) then a :: open else open) st items with
    | None => None
    | Some (inner, st1) =>
      let out := e0 :: inner ++ [EMapEnd (location_from_span spe)] in
      Some (out, if negb (a =? 0) then mkX ((a, out) :: x_env st1) (x_replayed st1) (x_exp st1) else st1)
    end
  | NAlias id sp =>
    let count := sat_add (x_expansions_of st id) 1 in
    if max_alias_expansions_per_anchor lim <? count then None else
    if max_replay_stack_depth lim <? 1 then None else
    if mem_N id open then None else
    match assoc id (x_env st) with
    | None => None
    | Some buf =>
      let total := x_replayed st + len_N buf in
      if (USIZE_MAX <? total) || (max_total_replayed_events lim <? total) then None
      else Some (buf, mkX (x_env st) total ((id, count) :: x_exp st))
    end
  end
with expand_forest (lim : alias_limits) (open : list N) (st : xst) (f : forest) : option (list ev * xst) :=
  match f with
  | FNil => Some ([], st)
  | FCons n r =>
    match expand lim open st n with
    | None => None
    | Some (o1, st1) =>
      match expand_forest lim open st1 r with
      | None => None
      | Some (o2, st2) => Some (o1 ++ o2, st2)
      end
    end
  end.

(* what the pump delivers: the events of successive next_impl calls, up to [fuel] of them *)
Fixpoint deliveries (fuel : nat) (s : live) (rest : list raw_item) : list ev * step_result :=
  match fuel with
  | O => ([], Eos s rest)
  | S f =>
    match next_impl s rest with
    | Yield e s' r' => let '(evs, fin) := deliveries f s' r' in (e :: evs, fin)
    | other => ([], other)
    end
  end.
