(* Live.v -- executable model of src/live_events.rs: LiveEvents::{next_impl, next, peek, finish,
   reset_document_state, skip_to_next_document, reference_location, record, bump_depth_*}.
   The parser is a list of raw items still to be delivered.  Definitions only.

   Termination: [serve_inject] is structural on the injection stack, [pull] structural on the
   remaining raw items; the alias arm of [pull] calls [serve_inject] (the Rust code calls
   next_impl recursively, whose first loop is exactly that). *)
From SS Require Export Model.Budget.
Local Open Scope N_scope.

Record alias_limits := mkLimits {
  max_total_replayed_events : N; max_replay_stack_depth : N; max_alias_expansions_per_anchor : N }.
Definition default_alias_limits : alias_limits :=
  mkLimits default_alias_max_total_replayed_events default_alias_max_replay_stack_depth
           default_alias_max_alias_expansions_per_anchor.

Record rec_frame := mkRec { rf_id : N; rf_depth : N; rf_buf : list ev }.   (* buf in order *)
Record inject_frame := mkInj { if_anchor : N; if_idx : N; if_ref : loc }.

Record live := mkLive {
  lv_produced_any : bool;
  lv_synth_null : bool;
  lv_look : option ev;
  lv_inject : list inject_frame;          (* head = top of the Vec *)
  lv_anchors : list (N * list ev);        (* id -> recorded buffer; first match wins *)
  lv_rec : list rec_frame;                (* head = last pushed *)
  lv_budget : option enforcer;
  lv_last : loc;
  lv_limits : alias_limits;
  lv_total_replayed : N;
  lv_expansions : list (N * N);           (* per_anchor_expansions; absent = 0 *)
  lv_stop_at_doc_end : bool;
  lv_seen_doc_end : bool;
  (* the thread-local "recursive anchor in progress" predicate of anchor_store, as a list *)
  lv_recursive_in_progress : list N
}.

Definition live_new (b : option budget) (per_document : bool) (lim : alias_limits) (stop : bool) : live :=
  mkLive false false None [] [] []
         (option_map (fun x => enforcer_new x per_document) b)
         loc_unknown lim 0 [] stop false [].

Fixpoint assoc {A} (k : N) (l : list (N * A)) : option A :=
  match l with [] => None | (k', v) :: r => if k =? k' then Some v else assoc k r end.

(* field updates *)
Definition with_look (s : live) (v : option ev) : live :=
  mkLive (lv_produced_any s) (lv_synth_null s) v (lv_inject s) (lv_anchors s) (lv_rec s) (lv_budget s)
         (lv_last s) (lv_limits s) (lv_total_replayed s) (lv_expansions s) (lv_stop_at_doc_end s)
         (lv_seen_doc_end s) (lv_recursive_in_progress s).
Definition with_inject (s : live) (v : list inject_frame) : live :=
  mkLive (lv_produced_any s) (lv_synth_null s) (lv_look s) v (lv_anchors s) (lv_rec s) (lv_budget s)
         (lv_last s) (lv_limits s) (lv_total_replayed s) (lv_expansions s) (lv_stop_at_doc_end s)
         (lv_seen_doc_end s) (lv_recursive_in_progress s).
Definition with_anchors (s : live) (v : list (N * list ev)) : live :=
  mkLive (lv_produced_any s) (lv_synth_null s) (lv_look s) (lv_inject s) v (lv_rec s) (lv_budget s)
         (lv_last s) (lv_limits s) (lv_total_replayed s) (lv_expansions s) (lv_stop_at_doc_end s)
         (lv_seen_doc_end s) (lv_recursive_in_progress s).
Definition with_rec (s : live) (v : list rec_frame) : live :=
  mkLive (lv_produced_any s) (lv_synth_null s) (lv_look s) (lv_inject s) (lv_anchors s) v (lv_budget s)
         (lv_last s) (lv_limits s) (lv_total_replayed s) (lv_expansions s) (lv_stop_at_doc_end s)
         (lv_seen_doc_end s) (lv_recursive_in_progress s).
Definition with_budget (s : live) (v : option enforcer) : live :=
  mkLive (lv_produced_any s) (lv_synth_null s) (lv_look s) (lv_inject s) (lv_anchors s) (lv_rec s) v
         (lv_last s) (lv_limits s) (lv_total_replayed s) (lv_expansions s) (lv_stop_at_doc_end s)
         (lv_seen_doc_end s) (lv_recursive_in_progress s).
Definition with_last (s : live) (v : loc) : live :=
  mkLive (lv_produced_any s) (lv_synth_null s) (lv_look s) (lv_inject s) (lv_anchors s) (lv_rec s) (lv_budget s)
         v (lv_limits s) (lv_total_replayed s) (lv_expansions s) (lv_stop_at_doc_end s)
         (lv_seen_doc_end s) (lv_recursive_in_progress s).
Definition with_replayed (s : live) (v : N) : live :=
  mkLive (lv_produced_any s) (lv_synth_null s) (lv_look s) (lv_inject s) (lv_anchors s) (lv_rec s) (lv_budget s)
         (lv_last s) (lv_limits s) v (lv_expansions s) (lv_stop_at_doc_end s)
         (lv_seen_doc_end s) (lv_recursive_in_progress s).
Definition with_expansions (s : live) (v : list (N * N)) : live :=
  mkLive (lv_produced_any s) (lv_synth_null s) (lv_look s) (lv_inject s) (lv_anchors s) (lv_rec s) (lv_budget s)
         (lv_last s) (lv_limits s) (lv_total_replayed s) v (lv_stop_at_doc_end s)
         (lv_seen_doc_end s) (lv_recursive_in_progress s).
Definition with_produced (s : live) (v : bool) : live :=
  mkLive v (lv_synth_null s) (lv_look s) (lv_inject s) (lv_anchors s) (lv_rec s) (lv_budget s)
         (lv_last s) (lv_limits s) (lv_total_replayed s) (lv_expansions s) (lv_stop_at_doc_end s)
         (lv_seen_doc_end s) (lv_recursive_in_progress s).
Definition with_synth (s : live) (v : bool) : live :=
  mkLive (lv_produced_any s) v (lv_look s) (lv_inject s) (lv_anchors s) (lv_rec s) (lv_budget s)
         (lv_last s) (lv_limits s) (lv_total_replayed s) (lv_expansions s) (lv_stop_at_doc_end s)
         (lv_seen_doc_end s) (lv_recursive_in_progress s).
Definition with_seen_doc_end (s : live) (v : bool) : live :=
  mkLive (lv_produced_any s) (lv_synth_null s) (lv_look s) (lv_inject s) (lv_anchors s) (lv_rec s) (lv_budget s)
         (lv_last s) (lv_limits s) (lv_total_replayed s) (lv_expansions s) (lv_stop_at_doc_end s)
         v (lv_recursive_in_progress s).

(* fn record: push the event into every open recording frame (all but the newest when the newest
   was just seeded with this very start event) *)
Definition push_ev (e : ev) (f : rec_frame) : rec_frame := mkRec (rf_id f) (rf_depth f) (rf_buf f ++ [e]).
Definition record (s : live) (e : ev) (is_start seeded_new_frame : bool) : live :=
  match lv_rec s with
  | [] => s
  | top :: rest =>
    if is_start && seeded_new_frame then with_rec s (top :: map (push_ev e) rest)
    else with_rec s (map (push_ev e) (top :: rest))
  end.

(* fn bump_depth_on_start *)
Definition bump_depth_on_start (s : live) : live :=
  with_rec s (map (fun f => mkRec (rf_id f) (rf_depth f + 1) (rf_buf f)) (lv_rec s)).

(* fn bump_depth_on_end: None = InternalDepthUnderflow *)
Fixpoint finalize_frames (fs : list rec_frame) (anchors : list (N * list ev))
  : list rec_frame * list (N * list ev) :=
  match fs with
  | f :: r => if rf_depth f =? 0 then finalize_frames r ((rf_id f, rf_buf f) :: anchors)
              else (fs, anchors)
  | [] => ([], anchors)
  end.
Definition bump_depth_on_end (s : live) : option live :=
  if existsb (fun f => rf_depth f =? 0) (lv_rec s) then None else
  let fs := map (fun f => mkRec (rf_id f) (rf_depth f - 1) (rf_buf f)) (lv_rec s) in
  let '(fs', anchors') := finalize_frames fs (lv_anchors s) in
  Some (with_anchors (with_rec s fs') anchors').

(* fn reset_document_state *)
Definition reset_document_state (s : live) : live :=
  with_seen_doc_end
    (with_replayed (with_expansions (with_anchors (with_rec (with_inject s []) []) []) []) 0) false.

(* fn observe_budget_for_replay: the replayed event as a parser event without anchor and tag *)
Definition replay_raw (e : ev) : raw_ev :=
  match e with
  | EScalar v _ rt st _ _ => RScalar v st 0 rt      (* only the presence of the tag matters *)
  | ESeqStart _ _ _ _ => RSeqStart 0 None
  | ESeqEnd _ => RSeqEnd
  | EMapStart _ _ => RMapStart 0 None
  | EMapEnd _ => RMapEnd
  end.

Definition observe_live (s : live) (r : raw_ev) : live * option breach :=
  match lv_budget s with
  | None => (s, None)
  | Some enf => let '(enf', b) := observe enf r in (with_budget s (Some enf'), b)
  end.

Inductive step_result :=
| Yield (e : ev) (s : live) (rest : list raw_item)
| Eos (s : live) (rest : list raw_item)             (* Ok(None) *)
| Fail (e : err) (s : live) (rest : list raw_item).

(* the yield epilogue shared by every arm: last_location, produced_any_in_doc *)
Definition yielded (s : live) (e : ev) : live := with_produced (with_last s (ev_loc e)) true.

(* next_impl, first loop.  None = no live injection frame: fall through to the parser. *)
Fixpoint serve_inject (inj : list inject_frame) (s : live) (rest : list raw_item) : option step_result :=
  match inj with
  | [] => None
  | f :: below =>
    match assoc (if_anchor f) (lv_anchors s) with
    | None => Some (Fail (Err E_UnknownAnchor (lv_last s)) (with_inject s inj) rest)
    | Some buf =>
      match nth_error buf (N.to_nat (if_idx f)) with
      | None => serve_inject below s rest                       (* exhausted: pop *)
      | Some e =>
        let s1 := with_inject s (mkInj (if_anchor f) (if_idx f + 1) (if_ref f) :: below) in
        let total := lv_total_replayed s1 + 1 in
        if USIZE_MAX <? total then Some (Fail (Err E_AliasReplayCounterOverflow (ev_loc e)) s1 rest) else
        let s2 := with_replayed s1 total in
        if max_total_replayed_events (lv_limits s) <? total
        then Some (Fail (Err E_AliasReplayLimitExceeded (ev_loc e)) s2 rest) else
        match observe_live s2 (replay_raw e) with
        | (s3, Some b) => Some (Fail (ErrBudget b (ev_loc e)) s3 rest)
        | (s3, None) => Some (Yield e (yielded (record s3 e false false) e) rest)
        end
      end
    end
  end.

Definition expansions_of (s : live) (id : N) : N :=
  match assoc id (lv_expansions s) with Some c => c | None => 0 end.

Definition null_scalar (anchor : N) (l : loc) : ev := EScalar [] TAG_Null None Plain anchor l.

(* next_impl, second loop *)
Fixpoint pull (rest : list raw_item) (s : live) : step_result :=
  match rest with
  | [] =>
    if negb (lv_produced_any s) then
      let e := null_scalar 0 (lv_last s) in
      Yield e (with_synth (with_produced s true) true) []
    else Eos s []
  | RScanErr m ua :: r =>
    Fail (Err (if ua then E_UnknownAnchor else E_ExternalMessage) (location_from_scan_mark m)) s r
  | RItem raw sp :: r =>
    let l := location_from_span sp in
    match observe_live s raw with
    | (s0, Some b) => Fail (ErrBudget b l) s0 r
    | (s0, None) =>
      match raw with
      | RScalar val st anchor tag =>
        if (match st with Folded => true | _ => false end)
           && (mk_col (sp_start sp) =? 0)
           && negb (match trim val with [] => true | _ => false end)
        then Fail (Err E_FoldedBlockScalarMustIndentContent l) s0 r else
        let e := EScalar val (sftag_from_optional tag) tag st anchor l in
        let s1 := record s0 e false false in
        let s2 := if negb (anchor =? 0) then with_anchors s1 ((anchor, [e]) :: lv_anchors s1) else s1 in
        Yield e (yielded s2 e) r
      | RSeqStart anchor tag =>
        let e := ESeqStart anchor (sftag_from_optional tag) tag l in
        let s1 := bump_depth_on_start s0 in
        let s2 := if negb (anchor =? 0) then with_rec s1 (mkRec anchor 1 [e] :: lv_rec s1) else s1 in
        Yield e (yielded (record s2 e true (negb (anchor =? 0))) e) r
      | RSeqEnd =>
        let e := ESeqEnd l in
        match bump_depth_on_end (record s0 e false false) with
        | None => Fail (Err E_InternalDepthUnderflow l) (record s0 e false false) r
        | Some s2 => Yield e (yielded s2 e) r
        end
      | RMapStart anchor _ =>
        let e := EMapStart anchor l in
        let s1 := bump_depth_on_start s0 in
        let s2 := if negb (anchor =? 0) then with_rec s1 (mkRec anchor 1 [e] :: lv_rec s1) else s1 in
        Yield e (yielded (record s2 e true (negb (anchor =? 0))) e) r
      | RMapEnd =>
        let e := EMapEnd l in
        match bump_depth_on_end (record s0 e false false) with
        | None => Fail (Err E_InternalDepthUnderflow l) (record s0 e false false) r
        | Some s2 => Yield e (yielded s2 e) r
        end
      | RAlias id =>
        let count := sat_add (expansions_of s0 id) 1 in
        let s1 := with_expansions s0 ((id, count) :: lv_expansions s0) in
        if max_alias_expansions_per_anchor (lv_limits s0) <? count
        then Fail (Err E_AliasExpansionLimitExceeded l) s1 r else
        let next_depth := len_N (lv_inject s1) + 1 in
        if max_replay_stack_depth (lv_limits s0) <? next_depth
        then Fail (Err E_AliasReplayStackDepthExceeded l) s1 r else
        if existsb (fun f => rf_id f =? id) (lv_rec s1) then
          if mem_N id (lv_recursive_in_progress s1) then
            let e := null_scalar id l in
            Yield e (yielded (record s1 e false false) e) r
          else Fail (Err E_RecursiveReferencesRequireWeakTypes l) s1 r
        else
        match assoc id (lv_anchors s1) with
        | None => Fail (Err E_UnknownAnchor l) s1 r
        | Some _ =>
          let s1 := with_budget s1 (option_map alias_will_be_replayed (lv_budget s1)) in
          let inj := mkInj id 0 l :: lv_inject s1 in
          match serve_inject inj (with_inject s1 inj) r with
          | Some res => res
          | None => pull r (with_inject s1 [])
          end
        end
      | RDocStart _ => pull r (with_last (reset_document_state s0) l)
      | RDocEnd =>
        let s1 := with_last (with_seen_doc_end (reset_document_state s0) true) l in
        if lv_stop_at_doc_end s1 then
          match r with
          | RItem (RDocStart _) sp2 :: r2 => Fail (Err E_MultipleDocuments (location_from_span sp2)) s1 r2
          | _ :: r2 => Eos s1 r2
          | [] => Eos s1 []
          end
        else pull r s1
      | RStreamStart | RStreamEnd => pull r (with_last s0 l)
      | RNothing => pull r s0
      end
    end
  end.

(* fn next_impl *)
Definition next_impl (s : live) (rest : list raw_item) : step_result :=
  match serve_inject (lv_inject s) s rest with
  | Some res => res
  | None => pull rest (with_inject s [])
  end.

(* Events::next  (the io-error cell is modelled in Reader.v) *)
Definition live_next (s : live) (rest : list raw_item) : step_result :=
  match lv_look s with
  | Some e => Yield e (with_last (with_look s None) (ev_loc e)) rest
  | None => next_impl s rest
  end.

(* Events::peek: the state afterwards holds the event in the look-ahead slot *)
Definition live_peek (s : live) (rest : list raw_item) : step_result :=
  match lv_look s with
  | Some e => Yield e (with_last s (ev_loc e)) rest
  | None =>
    match next_impl s rest with
    | Yield e s' rest' => Yield e (with_last (with_look s' (Some e)) (ev_loc e)) rest'
    | other => other
    end
  end.

(* Events::reference_location *)
Definition reference_location (s : live) : loc :=
  match lv_inject s with
  | f :: _ => if_ref f
  | [] => match lv_look s with Some e => ev_loc e | None => lv_last s end
  end.

(* fn finish (without the io cell): hands the report to the callbacks and maps a breach to an error *)
Definition live_finish (s : live) : option report * option err :=
  match lv_budget s with
  | None => (None, None)
  | Some enf =>
    let rep := finalize enf in
    (Some rep, match r_breached rep with Some b => Some (ErrBudget b (lv_last s)) | None => None end)
  end.

(* fn skip_to_next_document: returns (found_next_document, state, remaining items) *)
Fixpoint skip_go (rest : list raw_item) (s : live) : bool * live * list raw_item :=
  match rest with
  | [] => (false, s, [])
  | RScanErr _ _ :: r => (false, s, r)
  | RItem raw sp :: r =>
    let s1 := with_last s (location_from_span sp) in
    match raw with
    | RDocStart _ =>
      let s2 := with_produced (reset_document_state s1) false in
      (true, with_budget s2 (option_map document_started_after_skip (lv_budget s2)), r)
    | RDocEnd => skip_go r (with_produced (reset_document_state s1) false)
    | RStreamEnd => (false, s1, r)
    | _ => skip_go r s1
    end
  end.
Definition skip_to_next_document (s : live) (rest : list raw_item) : bool * live * list raw_item :=
  skip_go rest (with_rec (with_inject (with_look s None) []) []).

(* ---- the hook's pump: peek (optional), reference_location, next, last_location, until the end ---- *)
Record ev_dump := mkDump { d_ev : ev; d_ref : loc; d_last : loc }.

Record pump_result := mkPump {
  p_events : list ev_dump;
  p_error : option err;
  p_finish_error : option err;
  p_report : option report;
  p_seen_doc_end : bool;
  p_synth_null : bool
}.

Fixpoint pump_go (fuel : nat) (use_peek : bool) (s : live) (rest : list raw_item) (acc : list ev_dump)
  : list ev_dump * option err * live :=
  match fuel with
  | O => (rev acc, None, s)
  | S fuel' =>
    if use_peek then
      match live_peek s rest with
      | Fail e s1 _ => (rev acc, Some e, s1)
      | Eos s1 _ => (rev acc, None, s1)
      | Yield _ s1 rest1 =>
        let ref := reference_location s1 in
        match live_next s1 rest1 with
        | Yield e s2 rest2 => pump_go fuel' use_peek s2 rest2 (mkDump e ref (lv_last s2) :: acc)
        | Eos s2 _ => (rev acc, None, s2)
        | Fail e s2 _ => (rev acc, Some e, s2)
        end
      end
    else
      match live_next s rest with
      | Yield e s2 rest2 => pump_go fuel' use_peek s2 rest2 (mkDump e loc_unknown (lv_last s2) :: acc)
      | Eos s2 _ => (rev acc, None, s2)
      | Fail e s2 _ => (rev acc, Some e, s2)
      end
  end.

Definition pump (max_events : nat) (use_peek : bool) (b : option budget) (per_document : bool)
           (lim : alias_limits) (stop : bool) (items : list raw_item) : pump_result :=
  let '(evs, e, s) := pump_go max_events use_peek (live_new b per_document lim stop) items [] in
  let '(rep, fe) := match e with None => live_finish s | Some _ => (None, None) end in
  mkPump evs e fe rep (lv_seen_doc_end s) (lv_synth_null s).

(* the pump: call next_impl until the stream ends or an error is returned; None = out of fuel *)
Fixpoint drain (fuel : nat) (s : live) (rest : list raw_item) : option (nat * option err) :=
  match fuel with
  | O => None
  | S f =>
    match next_impl s rest with
    | Yield _ s' r' => match drain f s' r' with Some (n, e) => Some (S n, e) | None => None end
    | Eos _ _ => Some (O, None)
    | Fail e _ _ => Some (O, Some e)
    end
  end.

