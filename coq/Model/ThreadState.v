(* ThreadState.v -- the thread-local state of the crate (C15): the anchor table with its context
   stack and in-progress counters (src/anchor_store.rs) and the fallback location used for serde's
   static errors (src/de_error.rs MISSING_FIELD_FALLBACK), driven by scripted calls.  A "call" is a
   list of actions; `AScope` is what every entry point wraps a document in (with_document_scope);
   `AAbort` is an error or a panicking visitor unwinding through the guards. *)
From Coq Require Export NArith List Bool.
Export ListNotations.
Local Open Scope N_scope.

Inductive act :=
| AStore (id v : N)
| ALookup (id : N)
| AAnchor (id : N) (body : list act)
| AFallback (line : N) (body : list act)
| AReadFallback
| AScope (body : list act)
| AAbort.

Record tls := mkTl { tl_store : list (N * N); tl_stack : list N; tl_prog : list (N * N); tl_fb : option N }.
Definition tl_empty : tls := mkTl [] [] [] None.

Fixpoint assoc_n (k : N) (l : list (N * N)) : option N :=
  match l with [] => None | (k', v) :: r => if k =? k' then Some v else assoc_n k r end.
Fixpoint remove_n (k : N) (l : list (N * N)) : list (N * N) :=
  match l with [] => [] | (k', v) :: r => if k =? k' then remove_n k r else (k', v) :: remove_n k r end.

Definition prog_inc (id : N) (p : list (N * N)) : list (N * N) :=
  match assoc_n id p with Some c => (id, c + 1) :: remove_n id p | None => (id, 1) :: p end.
Definition prog_dec (id : N) (p : list (N * N)) : list (N * N) :=
  match assoc_n id p with
  | Some c => if 1 <? c then (id, c - 1) :: remove_n id p else remove_n id p
  | None => p
  end.

Definition obs_lookup (s : tls) (id : N) : N := match assoc_n id (tl_store s) with Some v => v + 1 | None => 0 end.
Definition obs_fb (s : tls) : N := match tl_fb s with Some l => l | None => 0 end.

Fixpoint run (fuel : nat) (acts : list act) (s : tls) (obs : list N) : bool * tls * list N :=
  match fuel with
  | O => (false, s, obs)
  | S f =>
    match acts with
    | [] => (true, s, obs)
    | a :: rest =>
      let '(ok, s1, o1) :=
        match a with
        | AStore id v => (true, mkTl ((id, v) :: remove_n id (tl_store s)) (tl_stack s) (tl_prog s) (tl_fb s), obs)
        | ALookup id => (true, s, obs ++ [obs_lookup s id])
        | AAnchor id body =>
          let s0 := mkTl (tl_store s) (id :: tl_stack s) (prog_inc id (tl_prog s)) (tl_fb s) in
          let reentrant := match assoc_n id (tl_prog s0) with Some c => 1 <? c | None => false end in
          let '(ok, s', o') := run f body s0 (obs ++ [1000 + id + 1; 2000 + (if reentrant then 1 else 0)]) in
          (* Guard::drop *)
          (ok, mkTl (tl_store s') (List.tl (tl_stack s')) (prog_dec id (tl_prog s')) (tl_fb s'), o')
        | AFallback line body =>
          let '(ok, s', o') := run f body (mkTl (tl_store s) (tl_stack s) (tl_prog s) (Some line)) obs in
          (ok, mkTl (tl_store s') (tl_stack s') (tl_prog s') (tl_fb s), o')
        | AReadFallback => (true, s, obs ++ [obs_fb s])
        | AScope body =>
          (* with_document_scope: the caller's state is put aside, the document starts from nothing, and
             the caller's state comes back whatever happened inside *)
          let '(_, _, o') := run f body tl_empty obs in
          (true, s, o')
        | AAbort => (false, s, obs)
        end in
      if ok then run f rest s1 o1 else (false, s1, o1)
    end
  end.

(* what tl_probe reads from a state *)
Definition probe (s : tls) : list N :=
  [obs_lookup s 0; obs_lookup s 1; obs_lookup s 2; obs_lookup s 3;
   match tl_stack s with id :: _ => id + 1 | [] => 0 end; obs_fb s].
