(* Snippet.v -- executable model of src/de/snippet.rs (C17): terminal sanitising, line/column ->
   byte offset conversion, horizontal cropping with span rebasing, the vertical window, and the
   secondary window renderer; plus the UTF-8 edge trimming of the reader's recent-bytes ring.
   A Rust &str is modelled by its UTF-8 bytes (list N, each < 256); chars().count() and
   char_indices() are modelled by counting / locating the non-continuation bytes, which is what
   they are on well-formed UTF-8 (the only thing a &str can hold). *)
From SS Require Export Model.Text.
From Coq Require Export NArith List Bool.
Export ListNotations.
Local Open Scope N_scope.

Definition bytes := list N.
Definition SN_USIZE_MAX : N := 18446744073709551615.
Definition add_sat (a b : N) : N := if SN_USIZE_MAX <? a + b then SN_USIZE_MAX else a + b.
Definition blen (s : bytes) : N := N.of_nat (length s).
Definition slice (s : bytes) (a b : N) : bytes := firstn (N.to_nat (b - a)) (skipn (N.to_nat a) s).
Definition nth_b (s : bytes) (i : N) : option N := nth_error s (N.to_nat i).
Definition char_count (s : bytes) : N := N.of_nat (length (filter (fun b => negb (is_cont b)) s)).

Definition ELLIPSIS : bytes := [226; 128; 166].
Definition BOM : bytes := [239; 187; 191].

(* ---- sanitising ---- *)
Definition is_bad_c0 (b : N) : bool := ((b <? 32) && negb (b =? 10) && negb (b =? 9)) || (b =? 127).
Definition is_c1_tail (b : N) : bool := (128 <=? b) && (b <=? 159).

Definition san1 (s : bytes) : bytes := map (fun b => if is_bad_c0 b then 32 else b) s.

Fixpoint san2 (s : bytes) : bytes :=
  match s with
  | [] => []
  | a :: r =>
    match r with
    | b :: r' => if (a =? 194) && is_c1_tail b then a :: 160 :: san2 r' else a :: san2 r
    | [] => [a]
    end
  end.

Definition sanitize (s : bytes) : bytes := san2 (san1 s).

Fixpoint has_c1 (s : bytes) : bool :=
  match s with
  | [] => false
  | a :: r => match r with
              | b :: _ => ((a =? 194) && is_c1_tail b) || has_c1 r
              | [] => false
              end
  end.

Definition is_clean (s : bytes) : bool := negb (existsb is_bad_c0 s) && negb (has_c1 s).

(* ---- columns and offsets ---- *)
Fixpoint col_off_go (line : bytes) (i col target : N) : option N :=
  match line with
  | [] => if col =? target then Some i else None
  | b :: r => if is_cont b then col_off_go r (i + 1) col target
              else if col =? target then Some i else col_off_go r (i + 1) (col + 1) target
  end.

Definition col_to_byte (line : bytes) (col1 : N) : option N :=
  if col1 =? 0 then None else col_off_go line 0 1 col1.

(* a line ends at LF, CRLF (counted at the LF) or a lone CR *)
Definition is_break_at (b : N) (rest : bytes) : bool :=
  (b =? 10) || ((b =? 13) && negb (match rest with 10 :: _ => true | _ => false end)).

Fixpoint lone_cr_to_lf (s : bytes) : bytes :=
  match s with
  | [] => []
  | b :: r => (if (b =? 13) && negb (match r with 10 :: _ => true | _ => false end) then 10 else b) :: lone_cr_to_lf r
  end.

Fixpoint line_starts_go (s : bytes) (i : N) : list N :=
  match s with
  | [] => []
  | b :: r => if is_break_at b r then (i + 1) :: line_starts_go r (i + 1) else line_starts_go r (i + 1)
  end.

Definition line_starts (s : bytes) : list N :=
  match s with [] => [] | _ => 0 :: line_starts_go s 0 end.

Definition strip_cr (l : bytes) : bytes := if last l 0 =? 13 then removelast l else l.

Definition line_col_to_byte (src : bytes) (starts : list N) (row col : N) : option N :=
  if (row =? 0) || (col =? 0) then None else
  let idx := row - 1 in
  match nth_error starts (N.to_nat idx) with
  | None => None
  | Some ls =>
    let le0 := match nth_error starts (N.to_nat (idx + 1)) with Some n => n - 1 | None => blen src end in
    let le := if (ls <? le0) && (match nth_b src (le0 - 1) with Some 13 => true | _ => false end)
              then le0 - 1 else le0 in
    option_map (N.add ls) (col_to_byte (slice src ls le) col)
  end.

Fixpoint skip_cont (s : bytes) (i : N) : N :=
  match s with b :: r => if is_cont b then skip_cont r (i + 1) else i | [] => i end.

Definition next_char_boundary (src : bytes) (start : N) : option N :=
  if blen src <=? start then None else
  match skipn (N.to_nat start) src with
  | [] => None
  | _ :: r => Some (skip_cont r (start + 1))
  end.

(* ---- horizontal cropping of one line ---- *)
Definition crop_line (line : bytes) (left right : N) : bytes * N * N :=
  let n := char_count line in
  if n =? 0 then ([], 0, 0)
  else if add_sat n 1 <=? left then (line, 0, 0)
  else if (left <=? 1) && (n <=? right) then (line, 0, 0)
  else
    let start_col := N.min left (n + 1) in
    let end_col := N.min (add_sat right 1) (n + 1) in
    let sb := match col_to_byte line start_col with Some x => x | None => 0 end in
    let eb := match col_to_byte line end_col with Some x => x | None => blen line end in
    let lc := (1 <? start_col) && (0 <? sb) in
    let rc := (end_col <=? n) && (eb <? blen line) in
    ((if lc then ELLIPSIS else []) ++ slice line sb eb ++ (if rc then ELLIPSIS else []),
     sb, if lc then 3 else 0).

(* split at '\n' keeping whether the piece was terminated (the shape of the `find('\n')` loops) *)
Fixpoint split_nl_go (s acc : bytes) : list (bytes * bool) :=
  match s with
  | [] => match acc with [] => [] | _ => [(rev acc, false)] end
  | b :: r => if b =? 10 then (rev acc, true) :: split_nl_go r [] else split_nl_go r (b :: acc)
  end.
Definition split_nl (s : bytes) : list (bytes * bool) := split_nl_go s [].

Definition ends_with_nl (s : bytes) : bool := last s 0 =? 10.

(* ---- crop_window_text ---- *)
Record cw_state := { cw_out : bytes; cw_old : N; cw_row : N; cw_ns : N; cw_ne : N; cw_reb : bool }.

Definition cw_step (do_crop : bool) (left right erow ls le : N) (st : cw_state) (p : bytes * bool) : cw_state :=
  let '(line_raw, had_nl) := p in
  let consumed := blen line_raw + (if had_nl then 1 else 0) in
  let line := strip_cr line_raw in
  let lso := cw_old st in
  let lsn := blen (cw_out st) in
  let '(rendered, sb, pb) := if do_crop then crop_line line left right else (line, 0, 0) in
  let out' := cw_out st ++ rendered ++ (if had_nl then [10] else []) in
  if cw_row st =? erow then
    let s0 := N.min (ls - lso) (blen line) - sb in
    let e0 := N.min (le - lso) (blen line) - sb in
    let mx := lsn + blen rendered in
    let ns := N.min (lsn + pb + s0) mx in
    let ne := N.min (lsn + pb + e0) mx in
    let ne := if ne <? ns then ns else ne in
    {| cw_out := out'; cw_old := lso + consumed; cw_row := cw_row st + 1; cw_ns := ns; cw_ne := ne; cw_reb := true |}
  else
    {| cw_out := out'; cw_old := lso + consumed; cw_row := cw_row st + 1; cw_ns := cw_ns st; cw_ne := cw_ne st;
       cw_reb := cw_reb st |}.

Definition crop_window (w : bytes) (wsr erow ecol radius ls le : N) : bytes * N * N :=
  if (radius =? 0) && negb (existsb (N.eqb 13) w) && is_clean w then (w, ls, le) else
  let do_crop := negb (radius =? 0) in
  let left := N.max (ecol - radius) 1 in
  let right := add_sat ecol radius in
  let st := fold_left (cw_step do_crop left right erow ls le) (split_nl w)
              {| cw_out := []; cw_old := 0; cw_row := wsr; cw_ns := ls; cw_ne := le; cw_reb := false |} in
  let '(ns, ne) := if negb (cw_reb st) && ends_with_nl w && (cw_row st =? erow)
                   then (blen (cw_out st), blen (cw_out st)) else (cw_ns st, cw_ne st) in
  let mx := blen (cw_out st) in
  let ns := N.min ns mx in
  let ne := N.min ne mx in
  let ne := if ne <? ns then ns else ne in
  (sanitize (cw_out st), ns, ne).

(* ---- the vertical window ---- *)
Definition strip_bom (s : bytes) : bytes :=
  match s with 239 :: 187 :: 191 :: r => r | _ => s end.

(* LineMapping: None = Identity, Some start_line = Offset *)
Definition map_row (mapping : option N) (wsr : N) : N :=
  match mapping with None => wsr | Some sl => add_sat sl wsr - 1 end.

(* rows of the window around `row` in a text of `total` lines: (first, last) *)
Definition window_rows (row total : N) : N * N :=
  let ws := N.max (row - 2) 1 in
  let we := N.min (add_sat row 2) total in
  (N.min ws we, we).

Definition window_bounds (text : bytes) (starts : list N) (ws we : N) : N * N :=
  let a := nth (N.to_nat (ws - 1)) starts 0 in
  let b := if we <? N.of_nat (length starts) then nth (N.to_nat we) starts 0 else blen text in
  (a, b).

(* str::lines() followed by strip_suffix('\r') *)
Definition line_payload (p : bytes * bool) : bytes :=
  let '(l, had_nl) := p in
  if had_nl then strip_cr (strip_cr l) else strip_cr l.

Definition needs_storage_crop (w : bytes) : bool :=
  (16384 <? blen w) || existsb (fun p => 4096 <? blen (line_payload p)) (split_nl w).

Definition csw_step (left right erow : N) (st : bytes * N) (p : bytes * bool) : bytes * N :=
  let '(out, row) := st in
  let '(line_raw, had_nl) := p in
  let line := strip_cr line_raw in
  let piece :=
    if row =? erow then
      let eb := match col_to_byte line (add_sat right 1) with Some x => x | None => blen line end in
      slice line 0 eb ++ (if eb <? blen line then ELLIPSIS else [])
    else fst (fst (crop_line line left right)) in
  (out ++ piece ++ (if had_nl then [10] else []), add_sat row 1).

Definition crop_source_window (text0 : bytes) (line col : N) (mapping : option N) (radius : N) : bytes * N :=
  if match text0 with [] => true | _ => false end || ((line =? 0) && (col =? 0)) then ([], 1) else
  let text := strip_bom text0 in
  let below := match mapping with Some sl => line <? sl | None => false end in
  if below then ([], match mapping with Some sl => sl | None => 1 end) else
  let rel := match mapping with None => line | Some sl => add_sat (line - sl) 1 end in
  let starts := line_starts text in
  match starts with
  | [] => ([], 1)
  | _ =>
    let total := N.of_nat (length starts) in
    if (rel =? 0) || (total <? rel) then ([], match mapping with Some sl => sl | None => 1 end) else
    let '(ws, we) := window_rows rel total in
    let '(a, b) := window_bounds text starts ws we in
    let w := lone_cr_to_lf (slice text a b) in
    if radius =? 0 then (w, map_row mapping ws)
    else if negb (needs_storage_crop w) then (w, map_row mapping ws)
    else
      let left := N.max (col - radius) 1 in
      let right := add_sat col radius in
      let '(out, _) := fold_left (csw_step left right rel) (split_nl w) ([], ws) in
      (sanitize out, map_row mapping ws)
  end.

(* ---- the secondary window renderer (fmt_snippet_window_with_mapping_or_fallback) ---- *)
Fixpoint dec_go (fuel : nat) (n : N) (acc : bytes) : bytes :=
  match fuel with
  | O => acc
  | S f => let acc' := (48 + n mod 10) :: acc in
           if n / 10 =? 0 then acc' else dec_go f (n / 10) acc'
  end.
Definition dec (n : N) : bytes := dec_go 40 n [].

Definition pad_left (w : N) (s : bytes) : bytes := repeat 32 (N.to_nat (w - char_count s)) ++ s.
Definition spaces (n : N) : bytes := repeat 32 (N.to_nat n).

(* position just after the last '\n' of a prefix *)
Fixpoint after_last_nl (s : bytes) (i last_ : N) : N :=
  match s with [] => last_ | b :: r => after_last_nl r (i + 1) (if b =? 10 then i + 1 else last_) end.

(* frame and marker rows use the gutter of the numbered rows (F73, fixed: they used a fixed width of one digit) *)
Definition caret_line (w : bytes) (ls gw : N) (msg : bytes) : bytes :=
  let pre := slice w 0 ls in
  let lbs := after_last_nl pre 0 0 in
  let cc := char_count (slice w lbs ls) in
  spaces gw ++ [32; 124; 32] ++ spaces cc ++ [94] ++ (match msg with [] => [] | _ => 32 :: msg end) ++ [10].
Definition frame_line (gw : N) : bytes := spaces gw ++ [32; 124; 10].

Record fw_state := { fw_out : bytes; fw_cur : N; fw_done : bool }.

Definition fw_step (w : bytes) (ls row wsr wsar we gw : N) (msg : bytes) (st : fw_state) (p : bytes * bool) : fw_state :=
  if fw_done st then st else
  let line := strip_cr (fst p) in
  let display := add_sat wsar (fw_cur st) - wsr in
  let out := fw_out st ++ pad_left gw (dec display) ++ [32; 124; 32] ++ line ++ [10] in
  let out := if fw_cur st =? row then out ++ caret_line w ls gw msg else out in
  let cur := fw_cur st + 1 in
  {| fw_out := out; fw_cur := cur; fw_done := we <? cur |}.

Definition fmt_window (text : bytes) (line col : N) (mapping : option N) (msg : bytes) (radius : N) : bytes :=
  if (line =? 0) && (col =? 0) then [] else
  let below := match mapping with Some sl => line <? sl | None => false end in
  if below then [] else
  let row := match mapping with None => line | Some sl => add_sat (line - sl) 1 end in
  let starts := line_starts text in
  match starts with
  | [] => []
  | _ =>
    let total := N.of_nat (length starts) in
    if (row =? 0) || (total <? row) then [] else
    match line_col_to_byte text starts row col with
    | None => []
    | Some start =>
      let end_ := match nth_b text start with
                  | Some 10 | Some 13 => start
                  | _ => match next_char_boundary text start with Some e => e | None => start end
                  end in
      let '(ws, we) := window_rows row total in
      let '(a, b) := window_bounds text starts ws we in
      let w0 := slice text a b in
      let ls0 := N.min (start - a) (blen w0) in
      let le0 := N.min (end_ - a) (blen w0) in
      let '(w, ls, _) := crop_window w0 ws row col radius ls0 le0 in
      let wsar := map_row mapping ws in
      let maxrow := map_row mapping we in
      let gw := blen (dec maxrow) in
      let st := fold_left (fw_step w ls row ws wsar we gw msg) (split_nl w)
                  {| fw_out := frame_line gw; fw_cur := ws; fw_done := false |} in
      let out := fw_out st in
      let out :=
        if (we =? total) && ends_with_nl w && (fw_cur st <=? we) then
          let display := add_sat wsar (fw_cur st) - ws in
          let o := out ++ pad_left gw (dec display) ++ [32; 124; 10] in
          if fw_cur st =? row then o ++ caret_line w ls gw msg else o
        else out in
      out ++ frame_line gw
    end
  end.

(* ---- ring_reader.rs: trimming a byte snapshot to UTF-8 boundaries ---- *)
Fixpoint drop_lead_cont (s : bytes) (off line : N) : N * N * bytes :=
  match s with
  | b :: r => if is_cont b then drop_lead_cont r (off + 1) (if b =? 10 then line + 1 else line)
              else (off, line, s)
  | [] => (off, line, [])
  end.

Definition utf8_expected_len (lead : N) : option N :=
  if lead <=? 127 then Some 1
  else if (194 <=? lead) && (lead <=? 223) then Some 2
  else if (224 <=? lead) && (lead <=? 239) then Some 3
  else if (240 <=? lead) && (lead <=? 244) then Some 4
  else None.

(* count up to 3 trailing continuation bytes of a reversed list *)
Fixpoint count_cont_rev (r : bytes) (k : nat) : N * bytes :=
  match k with
  | O => (0, r)
  | S k' => match r with
            | b :: r' => if is_cont b then let '(n, t) := count_cont_rev r' k' in (n + 1, t) else (0, r)
            | [] => (0, [])
            end
  end.

Fixpoint trim_tail_rev (fuel : nat) (r : bytes) : bytes :=
  match fuel with
  | O => r
  | S f =>
    match r with
    | [] => []
    | _ =>
      let '(cont, t) := count_cont_rev r 3 in
      match t with
      | [] => []
      | lead :: before =>
        match utf8_expected_len lead with
        | None => r
        | Some n => if cont + 1 <? n then trim_tail_rev f before else r
        end
      end
    end
  end.

Definition trim_utf8 (s : bytes) (off line : N) : N * N * bytes :=
  match s with
  | [] => (off, line, [])
  | _ => let '(off', line', s') := drop_lead_cont s off line in
         (off', line', rev (trim_tail_rev (length s') (rev s')))
  end.
