(* SerScalar.v -- the scalar side of the serializer (C12): the plain-safety predicates of
   src/ser_quoting.rs, the quoting decision and the escapers of src/ser.rs, and the reader-side
   meaning of the two quoted styles (a specification of YAML's unescaping, tied to the parser by the
   correspondence).  Strings are lists of Unicode scalar values. *)
From SS Require Export Model.Scalars.
Local Open Scope N_scope.

Definition is_digit (c : N) : bool := (48 <=? c) && (c <=? 57).
Definition is_us (c : N) : bool := c =? 95.
Definition digit_or_us (c : N) : bool := is_digit c || is_us c.
Definition is_hex (c : N) : bool := is_digit c || ((65 <=? c) && (c <=? 70)) || ((97 <=? c) && (c <=? 102)).

(* [0-9][0-9_]* *)
Definition d_us (s : str) : bool :=
  match s with c :: r => is_digit c && forallb digit_or_us r | [] => false end.

Definition strip_sign (s : str) : str :=
  match s with c :: r => if (c =? 43) || (c =? 45) then r else s | [] => [] end.

(* [eE][+-]?[0-9][0-9_]* *)
Definition is_exp (s : str) : bool :=
  match s with c :: r => ((c =? 101) || (c =? 69)) && d_us (strip_sign r) | [] => false end.

Fixpoint span_p (p : N -> bool) (s : str) : str * str :=
  match s with
  | c :: r => if p c then let '(a, b) := span_p p r in (c :: a, b) else ([], s)
  | [] => ([], [])
  end.

Definition opt_exp (s : str) : bool := match s with [] => true | _ => is_exp s end.

(* the body of the numeric-looking regex after the optional sign, alternative by alternative *)
Definition nb_radix (b : str) : bool :=
  match b with
  | 48 :: 120 :: t | 48 :: 88 :: t => (match t with [] => false | _ => forallb (fun c => is_hex c || is_us c) t end)
  | _ => false
  end
  || match b with
     | 48 :: 111 :: t | 48 :: 79 :: t => match t with [] => false | _ => forallb (fun c => ((48 <=? c) && (c <=? 55)) || is_us c) t end
     | _ => false
     end
  || match b with
     | 48 :: 98 :: t | 48 :: 66 :: t => match t with [] => false | _ => forallb (fun c => (c =? 48) || (c =? 49) || is_us c) t end
     | _ => false
     end.
(* float with a dot: 1. , 1.0 , .5 , optional exponent *)
Definition nb_dot (b : str) : bool :=
  let '(pre, rest) := span_p (fun c => negb (c =? 46)) b in
  match rest with
  | _dot :: post =>
    let '(f, e) := span_p digit_or_us post in
    (d_us pre && opt_exp e) || (match pre with [] => d_us f && opt_exp e | _ => false end)
  | [] => false
  end.
(* scientific without a dot: 1e9 *)
Definition nb_exp (b : str) : bool :=
  let '(pre, rest) := span_p (fun c => negb ((c =? 101) || (c =? 69))) b in
  d_us pre && is_exp rest.
Definition numeric_body (b : str) : bool := nb_radix b || nb_dot b || nb_exp b || d_us b.

Definition is_numeric_looking (s : str) : bool := numeric_body (strip_sign s).

Definition s_lit (l : list N) : str := l.
Definition eqi (a : str) (b : str) : bool := eq_ignore_ascii_case a b.
Definition S_TRUE : str := [116; 114; 117; 101].
Definition S_FALSE : str := [102; 97; 108; 115; 101].
Definition S_NULL : str := [110; 117; 108; 108].
Definition S_NAN : str := [110; 97; 110].
Definition S_INF : str := [105; 110; 102].
Definition S_INFINITY : str := [105; 110; 102; 105; 110; 105; 116; 121].

Definition lower (c : N) : N := if (65 <=? c) && (c <=? 90) then c + 32 else c.

(* [+-]?\.(nan|inf), case-insensitive *)
Definition is_special_inf_nan (s : str) : bool :=
  match strip_sign s with
  | 46 :: a :: b :: c :: [] =>
    let w := [lower a; lower b; lower c] in str_eqb w S_NAN || str_eqb w S_INF
  | _ => false
  end.

Definition has_us (s : str) : bool := existsb is_us s.

(* judged as the reader will see the text: with Unicode white space trimmed *)
Definition is_ambiguous (s0 : str) : bool :=
  let s := trim s0 in
  match s with
  | [] => true
  | _ => str_eqb s [126] || eqi s S_NULL || eqi s S_TRUE || eqi s S_FALSE
         || is_special_inf_nan s || is_numeric_looking s
         || (has_us s && is_numeric_looking (filter (fun c => negb (is_us c)) s))
  end.

Definition is_ambiguous_value (s0 : str) (yaml_12 : bool) : bool :=
  is_ambiguous s0
  || (let s := trim s0 in
      (negb yaml_12 && match parse_yaml11_bool s with Some _ => true | None => false end)
      || (let u := strip_sign s in eqi u S_NAN || eqi u S_INF || eqi u S_INFINITY)).

(* u8::is_ascii_whitespace on the first byte of a character *)
Definition ascii_ws_byte (c : N) : bool := (c =? 32) || (c =? 9) || (c =? 10) || (c =? 12) || (c =? 13).
(* char::is_control *)
Definition is_control (c : N) : bool := (c <=? 31) || ((127 <=? c) && (c <=? 159)).

Definition bad_first (c : N) : bool :=
  existsb (N.eqb c) [44; 58; 91; 93; 123; 125; 35; 38; 42; 33; 124; 62; 39; 34; 37; 64; 96].

Definition leading_ok (s : str) : bool :=
  match s with
  | [] => false
  | c :: r =>
    negb (ascii_ws_byte c)
    && (if (c =? 45) || (c =? 63)
        then match r with [] => false | c2 :: _ => negb (ascii_ws_byte c2) end
        else negb (bad_first c))
  end.

Definition contains_any_or_control (s : str) (vals : list N) : bool :=
  existsb (fun x => existsb (fun v => (x =? v) || is_control x) vals) s.

Fixpoint contains_sub (sub s : str) : bool :=
  starts_with sub s || match s with [] => false | _ :: r => contains_sub sub r end.

Definition ends_with_c (c : N) (s : str) : bool := match rev s with x :: _ => x =? c | [] => false end.
Definition ends_with_sub (suffix s : str) : bool := starts_with (rev suffix) (rev s).

(* a string that would be read back as a document marker, or contains a BOM *)
Definition marker_or_edge_unsafe (s : str) : bool :=
  (match s with
   | 45 :: 45 :: 45 :: r | 46 :: 46 :: 46 :: r => match r with [] => true | c :: _ => ascii_ws_byte c end
   | _ => false
   end)
  || existsb (N.eqb 65279) s.

(* trailing whitespace is stripped from a plain scalar by the reader *)
Definition has_trailing_ws (s : str) : bool := match rev s with c :: _ => is_ws c | [] => false end.

Definition is_plain_safe (s : str) : bool :=
  negb (is_ambiguous s) && negb (str_eqb s [60; 60]) && negb (marker_or_edge_unsafe s)
  && leading_ok s && negb (contains_any_or_control s [58; 35]).

Definition is_plain_value_safe (s : str) (yaml_12 in_flow : bool) : bool :=
  negb (is_ambiguous_value s yaml_12) && negb (marker_or_edge_unsafe s)
  && leading_ok s
  && negb (contains_sub [58; 32] s) && negb (ends_with_c 58 (trim s))
  && (if in_flow then negb (ends_with_sub [32; 45] s) && negb (contains_any_or_control s [44; 91; 93; 123; 125; 35])
      else negb (contains_any_or_control s [35])).

Definition needs_double_quotes (s : str) : bool :=
  existsb (fun c => (c =? 39) || (c =? 92) || is_control c) s.

(* ---- escapers ---- *)
Definition hex_digit (n : N) : N := if n <? 10 then 48 + n else 55 + n.   (* upper case *)
Definition hex2 (c : N) : str := [hex_digit (c / 16); hex_digit (c mod 16)].
Definition hex4 (c : N) : str := [hex_digit (c / 4096); hex_digit ((c / 256) mod 16); hex_digit ((c / 16) mod 16); hex_digit (c mod 16)].

Definition dq_escape1 (c : N) : str :=
  if c =? 92 then [92; 92] else if c =? 34 then [92; 34]
  else if c =? 0 then [92; 48] else if c =? 7 then [92; 97] else if c =? 8 then [92; 98]
  else if c =? 9 then [92; 116] else if c =? 10 then [92; 110] else if c =? 11 then [92; 118]
  else if c =? 12 then [92; 102] else if c =? 13 then [92; 114] else if c =? 27 then [92; 101]
  else if c =? 65279 then [92; 117; 70; 69; 70; 70]
  else if c =? 133 then [92; 78] else if c =? 8232 then [92; 76] else if c =? 8233 then [92; 80]
  else if (c <=? 255) && is_control c then 92 :: 120 :: hex2 c
  else if (c <=? 65535) && is_control c then 92 :: 117 :: hex4 c
  else [c].

Definition dq_escape (s : str) : str := 34 :: flat_map dq_escape1 s ++ [34].
Definition sq_escape (s : str) : str := 39 :: flat_map (fun c => if c =? 39 then [39; 39] else [c]) s ++ [39].

(* KeyScalarSink::serialize_str *)
Definition key_escape1 (c : N) : str :=
  if c =? 92 then [92; 92] else if c =? 34 then [92; 34]
  else if c =? 10 then [92; 110] else if c =? 13 then [92; 114] else if c =? 9 then [92; 116]
  else if is_control c then 92 :: 117 :: hex4 c else [c].
Definition key_escape (s : str) : str := 34 :: flat_map key_escape1 s ++ [34].

(* the text emitted for a string in value position (no block style chosen) and in key position *)
Definition emit_str_value (s : str) (quote_all yaml_12 in_flow : bool) : str :=
  (* a lone '.', '#' or '-' is always single-quoted *)
  if str_eqb s [46] || str_eqb s [35] || str_eqb s [45] then 39 :: s ++ [39]
  else if quote_all then (if needs_double_quotes s then dq_escape s else sq_escape s)
  else if is_plain_value_safe s yaml_12 in_flow && negb (has_trailing_ws s) then s else dq_escape s.

Definition emit_str_key (s : str) (yaml_12 : bool) : str :=
  if is_plain_safe s && is_plain_value_safe s yaml_12 true && negb (has_trailing_ws s) then s else key_escape s.

(* ---- reader-side meaning of the quoted styles (single-line content) ---- *)
Definition hex_val (c : N) : option N :=
  if is_digit c then Some (c - 48)
  else if (65 <=? c) && (c <=? 70) then Some (c - 55)
  else if (97 <=? c) && (c <=? 102) then Some (c - 87) else None.

Fixpoint hex_num (n : nat) (s : str) (acc : N) : option (N * str) :=
  match n with
  | O => Some (acc, s)
  | S n' => match s with
            | c :: r => match hex_val c with Some v => hex_num n' r (acc * 16 + v) | None => None end
            | [] => None
            end
  end.

(* body of a double-quoted scalar, up to (not including) the closing quote *)
Definition dq_simple (e : N) : option N :=
  if e =? 48 then Some 0 else if e =? 97 then Some 7 else if e =? 98 then Some 8
  else if (e =? 116) || (e =? 9) then Some 9 else if e =? 110 then Some 10 else if e =? 118 then Some 11
  else if e =? 102 then Some 12 else if e =? 114 then Some 13 else if e =? 101 then Some 27
  else if e =? 32 then Some 32 else if e =? 34 then Some 34 else if e =? 47 then Some 47
  else if e =? 92 then Some 92 else if e =? 78 then Some 133 else if e =? 95 then Some 160
  else if e =? 76 then Some 8232 else if e =? 80 then Some 8233 else None.

Definition dq_hex_len (e : N) : nat :=
  if e =? 120 then 2%nat else if e =? 117 then 4%nat else if e =? 85 then 8%nat else 0%nat.

Fixpoint dq_body (fuel : nat) (s : str) (acc : str) : option (str * str) :=
  match fuel with
  | O => None
  | S f =>
    match s with
    | [] => None
    | c :: r =>
      if c =? 34 then Some (rev acc, r)
      else if c =? 92 then
        match r with
        | [] => None
        | e :: r2 =>
          match dq_simple e with
          | Some v => dq_body f r2 (v :: acc)
          | None =>
            match dq_hex_len e with
            | O => None
            | n => match hex_num n r2 0 with
                   | Some (v, r3) => if cp_valid v then dq_body f r3 (v :: acc) else None
                   | None => None
                   end
            end
          end
        end
      else dq_body f r (c :: acc)
    end
  end.

Definition dq_unescape (s : str) : option str :=
  match s with
  | c :: r => if c =? 34 then match dq_body (S (length r)) r [] with Some (v, []) => Some v | _ => None end else None
  | [] => None
  end.

Fixpoint sq_body (fuel : nat) (s : str) (acc : str) : option (str * str) :=
  match fuel with
  | O => None
  | S f =>
    match s with
    | [] => None
    | c :: r =>
      if c =? 39 then
        match r with
        | c2 :: r' => if c2 =? 39 then sq_body f r' (39 :: acc) else Some (rev acc, r)
        | [] => Some (rev acc, r)
        end
      else sq_body f r (c :: acc)
    end
  end.

Definition sq_unescape (s : str) : option str :=
  match s with
  | c :: r => if c =? 39 then match sq_body (S (length r)) r [] with Some (v, []) => Some v | _ => None end else None
  | [] => None
  end.

(* ---- float text normalisation (src/zmij_format.rs) applied to the shortest-digits text ---- *)
Definition has_char (c : N) (s : str) : bool := existsb (N.eqb c) s.

Definition float_normalize (s : str) : str :=
  let '(mant, rest) := span_p (fun c => negb ((c =? 101) || (c =? 69))) s in
  match rest with
  | e :: ex =>
    (if has_char 46 mant then mant else mant ++ [46; 48])
    ++ [e]
    ++ (match ex with c :: _ => if (c =? 43) || (c =? 45) then ex else 43 :: ex | [] => [43] end)
  | [] => if has_char 46 s then s else s ++ [46; 48]
  end.

(* shape of what the shortest-digits formatter prints for a finite float: -?D+(.D+)?(e-?D+)? *)
Definition all_digits1 (s : str) : bool := match s with [] => false | _ => forallb is_digit s end.
Definition zmij_shape (s : str) : bool :=
  let s := match s with 45 :: r => r | _ => s end in
  let '(mant, rest) := span_p (fun c => negb (c =? 101)) s in
  (let '(ip, fr) := span_p (fun c => negb (c =? 46)) mant in
   all_digits1 ip && match fr with [] => true | _ :: f => all_digits1 f end)
  && match rest with
     | [] => true
     | _ :: ex => all_digits1 (match ex with 45 :: r => r | _ => ex end)
     end.

(* YAML float with a decimal point and, if present, a signed exponent: -?D+.D+([eE][+-]D+)? *)
Definition yaml_float_shape (s : str) : bool :=
  let s := match s with 45 :: r => r | _ => s end in
  let '(mant, rest) := span_p (fun c => negb ((c =? 101) || (c =? 69))) s in
  (let '(ip, fr) := span_p (fun c => negb (c =? 46)) mant in
   all_digits1 ip && match fr with [] => false | _ :: f => all_digits1 f end)
  && match rest with
     | [] => true
     | _ :: sg :: ex => ((sg =? 43) || (sg =? 45)) && all_digits1 ex
     | _ => false
     end.
