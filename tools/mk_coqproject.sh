#!/bin/sh
# Regenerates coq/_CoqProject from the directory listing (so adding a .v file needs no registry edit)
# and the Makefile from it.  Idempotent; only rewrites when the file list changed.
set -e
cd "$(dirname "$0")/../coq"
{ echo "-Q . SS"; echo "-arg -w -arg -notation-overridden,-deprecated-hint-without-locality,-deprecated-instance-without-locality,-ambiguous-paths"; find Gen Model Proofs Props Corr -name '*.v' 2>/dev/null | LC_ALL=C sort; } > _CoqProject.new
if ! cmp -s _CoqProject.new _CoqProject 2>/dev/null || [ ! -f Makefile ]; then
  mv _CoqProject.new _CoqProject
  coq_makefile -f _CoqProject -o Makefile >/dev/null
else
  rm -f _CoqProject.new
fi
