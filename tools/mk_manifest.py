#!/usr/bin/env python3
"""Generates MANIFEST.json from props/*.json (one fragment per claimed property)."""
import glob, json, os
ROOT = os.path.join(os.path.dirname(os.path.abspath(__file__)), "..")
all_ids = [json.loads(l)["id"] for l in open(os.path.join(ROOT, "properties.jsonl"))]
checks, claimed = [], set()
for path in sorted(glob.glob(os.path.join(ROOT, "props", "C*.json"))):
    p = json.load(open(path))
    pid = p["id"]
    claimed.add(pid)
    checks.append({
        "property_id": pid,
        "quick_cmd": f"./check {pid} quick",
        "thorough_cmd": f"./check {pid} thorough",
        "evidence_file": f"/verif/evidence/{pid}.json",
        "replay_cmd_template": f"./check {pid} --replay {{path}}",
        "engine": "coq-proof+correspondence",
        "level_claimed": {
            "category": p.get("level", "proof"),
            "text": p.get("level_text") or ("Machine-checked Coq theorems about an executable Gallina model of the code, for all inputs; the model is tied to /repo on every run by regenerated constants and by an in-kernel (vm_compute) differential correspondence against the implementation built from the working tree. " + p.get("partial", "")),
            "design_ref": f"DESIGN.md section 6 ({pid})",
        },
        "level_note": "; ".join(p.get("trusted_base", []))[:4000],
        "technique": p.get("technique", "Coq proof over hand-written model + in-kernel differential correspondence + direct oracle search"),
    })
na_path = os.path.join(ROOT, "props", "not_applicable.json")
na = json.load(open(na_path)) if os.path.exists(na_path) else {}
not_applicable = []
for pid in all_ids:
    if pid not in claimed:
        not_applicable.append({"property_id": pid, "reason": na.get(pid, "check not built yet in this round; the design (DESIGN.md section 6) covers it and it will be claimed once its model, theorems and correspondence exist")})
manifest = {
    "version": 1,
    "setup_cmd": "./setup.sh",
    "hooks": {
        "guard": "serde_saphyr_verif",
        "enable": "RUSTFLAGS=\"--cfg serde_saphyr_verif\" (set in /verif/harness/.cargo/config.toml); exposes src/verif_hooks.rs as serde_saphyr::__verif",
        "baseline_off_cmd": "cd /repo && cargo test --workspace --no-fail-fast --offline",
        "source_commits": json.load(open(os.path.join(ROOT, "props", "hook_commits.json"))),
        "add_only": True,
    },
    "engines": [{
        "name": "coq-proof+correspondence",
        "path": "/verif/check",
        "serves_properties": sorted(claimed),
        "kind_free_text": "Coq 8.16 development under /verif/coq (Model/, Proofs/, Props/, Corr/), constants regenerated from /repo/src by tools/gen_constants.py, Rust harness /verif/harness running the implementation with hooks, case files evaluated by coqc (vm_compute)",
    }],
    "checks": checks,
    "not_applicable": not_applicable,
    "notes": "See DESIGN.md. known_findings.json lists recorded and fixed findings.",
}
json.dump(manifest, open(os.path.join(ROOT, "MANIFEST.json"), "w"), indent=1)
print("claimed:", sorted(claimed))
