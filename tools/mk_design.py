#!/usr/bin/env python3
"""Assemble /verif/DESIGN.md: design/head.md + generated sections 5 and 6 + design/tail.md."""
import glob, json, os, re
ROOT = os.path.join(os.path.dirname(os.path.abspath(__file__)), "..")
props = {}
for line in open(os.path.join(ROOT, "properties.jsonl")):
    p = json.loads(line); props[p["id"]] = p
kf = json.load(open(os.path.join(ROOT, "known_findings.json")))["findings"]
seeds = {}
for m in sorted(glob.glob(os.path.join(ROOT, "seeded", "*", "meta.json"))):
    sid = os.path.basename(os.path.dirname(m)); seeds.setdefault(sid.split("-")[0], []).append((sid, json.load(open(m))))

def cell(s): return re.sub(r"\s+", " ", str(s)).replace("|", "\\|").strip()

out = [open(os.path.join(ROOT, "design", "head.md")).read()]
out.append("\n## 5. Per property\n\nNotation: **T** theorems of `coq/Props/Cxx.v` (all closed by `exact` of a lemma proved in `coq/Proofs/`), "
           "**K** correspondence cases (model evaluated in the kernel on what the implementation just did), **S** direct oracles on the implementation "
           "(tests; also the search for a failing input), **seeded** = code changes written by independent sub-agents that break the property, "
           "compile and pass the suite (`seeded/<id>/`: patch, demo, notes, my confirmation), and how the check fares on them.\n")
for pid in sorted(props):
    pj = os.path.join(ROOT, "props", pid + ".json")
    if not os.path.exists(pj):
        continue
    d = json.load(open(pj)); p = props[pid]
    out.append(f"\n### {pid} — {p['title']}\n")
    out.append(f"*Statement (given):* {p['statement']}\n")
    src = open(os.path.join(ROOT, "coq", d["theorem_file"])).read()
    thms = re.findall(r"^(?:Theorem|Example) (\w+)", src, re.M)
    out.append(f"**T** (`{d['theorem_file']}`, {len(thms)} statements, level `{d['level']}`): " + ", ".join(f"`{t}`" for t in thms) + ".\n")
    hs = open(os.path.join(ROOT, "harness", "src", "props", d["harness"] + ".rs")).read()
    doc = [l[3:].rstrip() for l in hs.splitlines() if l.startswith("//!")]
    out.append("**K / S** (`harness/src/props/%s.rs`, case checker `%s`):\n\n```\n%s\n```\n" % (d["harness"], d["corr_file"], "\n".join(x[1:] if x.startswith(" ") else x for x in doc[1:]).strip("\n")))
    out.append("**Proved / not proved.** " + d["partial"] + "\n")
    if d.get("assumptions"):
        out.append("**Assumptions.** " + "; ".join(d["assumptions"]) + ".\n")
    out.append("**Trusted base (specific part).** " + "; ".join(d["trusted_base"][1:]) + ".\n")
    mine = [f for f in kf if f["property"] == pid]
    if mine:
        out.append("**Findings.** " + ", ".join(f"{f['id']} ({'open' if f['status']=='open' else 'fixed'})" for f in mine) + " — see section 6.\n")
    if pid in seeds:
        out.append("**Seeded changes.**\n\n| id | what it needs to manifest (from the author's notes) | outcome of `./check %s quick` with the change applied | caught by |\n|---|---|---|---|" % pid)
        for sid, m in seeds[pid]:
            need = m.get("needs_to_manifest", "")
            # first paragraph of the notes is enough here
            need = cell(need)[:330] + ("…" if len(cell(need)) > 330 else "")
            out.append(f"| {sid} | {need} | {cell(m['check_outcome'])} | {cell(m['caught_by'])} |")
        out.append("")
out.append("\n--------------------------------------------------------------------------------------------------\n")
out.append("## 6. Genuine defects found\n\nEvery entry was reproduced on the real crate (the witness is in `known_findings.json`).  *fixed* = one unguarded `fix:` commit in `/repo` "
           "(the unedited suite passes after it); *open* = recorded: the check prints a `KNOWN-FINDING` line for it and still reports any other violation of the property.\n")
out.append("| id | property | status | what failed |\n|---|---|---|---|")
for f in kf:
    st = f["status"]
    if st == "open":
        what = f["summary"]; s = "open (recorded)"
    else:
        m = re.match(r"fixed: property=\w+ (\w+) (.*)", st, re.S)
        s = f"fixed in `{m.group(1)}`" if m else "fixed"; what = m.group(2) if m else f["summary"]
    out.append(f"| {f['id']} | {f['property']} | {s} | {cell(what)} |")
out.append("\nOld numbering note: F11 (plain `nan` / `inf` / `Infinity` accepted as floats) turned out to be documented behaviour and is not a finding (section 7).\n")
out.append(open(os.path.join(ROOT, "design", "tail.md")).read())
open(os.path.join(ROOT, "DESIGN.md"), "w").write("\n".join(out))
print("DESIGN.md written,", sum(len(x) for x in out), "bytes")
