#!/bin/sh
# usage: coqshow.sh <file.v relative to coq/> <line>   -- prints the goals after the given line
cd "$(dirname "$0")/../coq"
mkdir -p /tmp/coqshow
head -n "$2" "$1" > /tmp/coqshow/Show_tmp.v
echo "Show." >> /tmp/coqshow/Show_tmp.v
timeout 300 coqc -Q . SS /tmp/coqshow/Show_tmp.v 2>&1 | grep -v "^File\|There are pending proofs\|^Error: There are pending" | head -${3:-80}
