#!/bin/bash
# usage: tools/try_mutant.sh <patch.diff> <Cxx> [quick|thorough]  -- applies the patch to /repo, runs the check, undoes it
patch=$1; prop=$2; tier=${3:-quick}
cd /repo || exit 2
if ! git apply --check "$patch" 2>/dev/null; then echo "MUTANT $patch: does not apply to the current tree"; exit 3; fi
git apply "$patch"
cd /verif && ./check "$prop" "$tier" > /tmp/try_mutant.log 2>&1; rc=$?
git -C /repo checkout -- .
echo "MUTANT $(basename $(dirname $(dirname $patch)))/$(basename $patch) on $prop: exit $rc :: $(grep -E '^VIOLATION|^reason' /tmp/try_mutant.log | tr '\n' ' ' | cut -c1-400)"
exit $rc
