#!/usr/bin/env python3
# usage: save_seed.py <outdir> <n> <id e.g. C09-1> <property> <confirm log line> <check outcome> <caught_by>
import sys, json, os, shutil, subprocess
out, n, sid, prop, confirm, outcome, caught = sys.argv[1:8]
d = f"/verif/seeded/{sid}"
os.makedirs(d, exist_ok=True)
shutil.copy(f"{out}/patch{n}.diff", f"{d}/patch.diff")
shutil.copy(f"{out}/demo{n}.rs", f"{d}/demo.rs")
shutil.copy(f"{out}/notes{n}.txt", f"{d}/notes.txt")
head = subprocess.check_output(["git", "-C", "/repo", "rev-parse", "--short", "HEAD"]).decode().strip()
notes = open(f"{out}/notes{n}.txt").read()
meta = {
 "property": prop,
 "origin": f"independent sub-agent given only the property text and a scratch worktree of /repo (commit {head})",
 "needs_to_manifest": notes[:1200],
 "confirmed_by_me": {
  "how": "scratch worktree: cp demo.rs tests/seed_demo.rs; cargo test --all-features --test seed_demo at HEAD (pass), git apply patch.diff, same test (fail), cargo test --workspace --no-fail-fast --offline with the patch (all pass)",
  "result": confirm,
 },
 "check_run": f"tools/try_mutant.sh seeded/{sid}/patch.diff {prop}",
 "check_outcome": outcome,
 "caught_by": caught,
}
json.dump(meta, open(f"{d}/meta.json", "w"), indent=1)
print("saved", d)
