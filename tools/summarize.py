#!/usr/bin/env python3
# usage: summarize.py Cxx [n_examples] -- classes of direct failures of the last harness run, few truncated examples each
import json, sys
from collections import Counter
p = sys.argv[1]; n = int(sys.argv[2]) if len(sys.argv) > 2 else 3
r = json.load(open(f'/verif/build/run/{p}/result.json'))
print('cases', r['cases'], 'nontrivial', r['distinct_nontrivial'], 'direct', r['direct_evaluations'], 'failures', len(r['direct_failures']))
c = Counter(f['class'] for f in r['direct_failures']); print(dict(c))
seen = Counter()
for f in r['direct_failures']:
    if seen[f['class']] >= n: continue
    seen[f['class']] += 1
    print(' *', f['class'], '::', f['what'][:int(sys.argv[3]) if len(sys.argv) > 3 else 260])
