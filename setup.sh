#!/bin/sh
# Run once after a fresh restore, offline: builds the Coq development and the harness.
set -e
cd "$(dirname "$0")"
export CARGO_NET_OFFLINE=true
mkdir -p build evidence replays
python3 tools/gen_constants.py
tools/mk_coqproject.sh
(cd coq && timeout 3000 make -j16 >/dev/null 2>build.log || { tail -30 build.log; echo "setup: coq build failed (checks will report it)"; })
[ -f harness/Cargo.lock ] || cp /repo/Cargo.lock harness/Cargo.lock
(cd harness && cargo build --release --offline 2>&1 | tail -3)
echo "setup done"
